"""Reference model for C13 (and shared DIP helpers for C14).

Nothing in here imports the repository.  A *tree* (JSON-able) is generated, an expected ordered
list of records is computed from the tree structure alone, and a renderer turns the tree into DIP
text (random indentation width per parent, blank lines, comments, literal styles).

tree   = {'items': [node, ...]}
node   = {'k': 'group', 'name': 'a.b', 'ch': [...]}
       | {'k': 'leaf',  'name': .., 'dt': 'bool|int|float|str', 'sfx': [..], 'val': lit, 'unit': None|str,
          'ch': [...], 'force': {...}?}
       | {'k': 'table', 'name': .., 'cols': [{'name','dt','sfx','unit','cell': None|n, 'vals': [lit..]}], 'ch': [...]}
       | {'k': 'unit',  'name': 'len', 'num': '2.5', 'unit': 'm'}          ($unit directive)
lit    = {'t': 'bool', 'v': True} | {'t': 'int', 'v': -3, 'plus': False} | {'t': 'float', 'sign': -1, 'digits': '25',
          'exp': -4, 'txt': '-2.5e-3'} | {'t': 'str', 'v': 'a b'} | {'t': 'none'} | {'t': 'arr', 'items': [lit, ...]}
"""
import random
import sys
from fractions import Fraction

KEYWORDS = ('none', 'true', 'false')
SEGS = ['a', 'b', 'c', 'x1', 'y_2', 'long-name', 'N3', 'box', 'size', 'v-x', '0k', 'int', 'float', 'str', 'T_e', 'm']
PLAIN_UNITS = ['m', 'cm', 'km', 'mm', 's', 'ms', 'min', 'h', 'kg', 'g', 'J', 'erg', 'm/s', 'km/h', 'm/s2',
               'kg*m2/s2', 'g/cm3']
BARE_ALPHA = 'abcdefghijklmnopqrstuvwxyzABCDEFGHIJKLMNOPQRSTUVWXYZ0123456789_-.:/+*,;!?%&<>|~^'
QUOTED_EXTRA = ' #\'"{}()[]='
ARR_TIGHT_ALPHA = 'abcdefghijklmnopqrstuvwxyzABCDEFGHIJKLMNOPQRSTUVWXYZ0123456789_-.:/+*;!?%&<>|~^'
ARR_LOOSE_EXTRA = ' #{}()='
CELL_ALPHA = 'abcdefghijklmnopqrstuvwxyzABCDEFGHIJKLMNOPQRSTUVWXYZ0123456789_-.'
COMMENT_ALPHA = 'abcdefghijklmnopqrstuvwxyz ABCXYZ0123456789_-.:/+*,;!?%&<>|~^#=${}()[]@'

INT_RANGE = {('', ''): (-2**31, 2**31 - 1), ('', '16'): (-2**15, 2**15 - 1), ('', '32'): (-2**31, 2**31 - 1),
             ('', '64'): (-2**63, 2**63 - 1), ('u', ''): (0, 2**32 - 1), ('u', '16'): (0, 2**16 - 1),
             ('u', '32'): (0, 2**32 - 1), ('u', '64'): (0, 2**64 - 1)}


# ------------------------------------------------------------------------------------------- literals

def gen_int(rng, sfx, json_only=False, small=False):
    lo, hi = INT_RANGE[tuple(sfx)]
    if small:
        lo, hi = max(lo, -2**31), min(hi, 2**31 - 1)
    r = rng.random()
    if r < 0.15:
        v = rng.choice([0, 1, lo, hi, -1 if lo < 0 else 2])
    elif r < 0.6:
        v = rng.randint(max(lo, -999), min(hi, 999))
    else:
        v = rng.randint(lo, hi)
    plus = (not json_only) and v > 0 and rng.random() < 0.15
    return {'t': 'int', 'v': v, 'plus': plus}


def gen_float(rng, json_only=False):
    """digits/exponent are the structure; txt is the literal written"""
    sign = -1 if rng.random() < 0.3 else 1
    form = rng.choice(['int', 'dec', 'dec', 'sci', 'sci'])
    plus = (not json_only) and sign > 0 and rng.random() < 0.1
    s = '-' if sign < 0 else ('+' if plus else '')
    if form == 'int':
        ip = str(rng.choice([0, 1, 10, rng.randint(0, 99999)]))
        return {'t': 'float', 'sign': sign, 'digits': ip, 'exp': 0, 'txt': s + ip, 'form': 'int'}
    ip = str(rng.choice([0, rng.randint(0, 9), rng.randint(0, 9999)]))
    fp = ''.join(rng.choice('0123456789') for _ in range(rng.randint(1, 6)))
    mant_txt = ip + '.' + fp
    digits, exp = ip + fp, -len(fp)
    if not json_only:
        q = rng.random()
        if q < 0.08 and ip == '0':
            mant_txt = '.' + fp                       # .5
        elif q < 0.16:
            mant_txt, digits, exp = ip + '.', ip, 0   # 2.
    if form == 'dec':
        return {'t': 'float', 'sign': sign, 'digits': digits, 'exp': exp, 'txt': s + mant_txt, 'form': 'dec'}
    e = rng.choice([0, 1, -1, 3, -3, 20, -20, rng.randint(-30, 30)])
    if rng.random() < 0.25:                           # integer mantissa: 1e5
        mant_txt, digits, exp = ip, ip, 0
    etxt = rng.choice(['e', 'E']) + (('+' if rng.random() < 0.3 else '') if e >= 0 else '-') + str(abs(e))
    return {'t': 'float', 'sign': sign, 'digits': digits, 'exp': exp + e, 'txt': s + mant_txt + etxt, 'form': 'sci'}


def _rand_text(rng, alpha, n):
    return ''.join(rng.choice(alpha) for _ in range(n))


def str_ok(s):
    low = s.strip()
    return low not in KEYWORDS and '"""' not in s and '\\' not in s and '$@' not in s


# characters that are ordinary text in a DIP value (a line ends only at \n) but that str.splitlines, editors or terminals treat
# as separators, and a few non-ASCII ones
EXOTIC = '\x0b\x0c\x1c\x1d\x1e\x85\u2028\u2029\t\u00e9\u2192'


def gen_str(rng):
    r = rng.random()
    if r < 0.05:
        while True:
            body = list(_rand_text(rng, BARE_ALPHA + ' ', rng.randint(2, 9)))
            for _ in range(rng.randint(1, 2)):
                body.insert(rng.randint(1, len(body) - 1), rng.choice(EXOTIC))
            t = ''.join(body)
            if rng.random() < 0.3:
                t = t + '\n' + _rand_text(rng, BARE_ALPHA, rng.randint(1, 6))       # block text
            if str_ok(t) and t.strip() == t:
                return {'t': 'str', 'v': t}
    r = rng.random()
    while True:
        if r < 0.3:
            s = _rand_text(rng, BARE_ALPHA, rng.randint(1, 10))
        elif r < 0.85:
            s = _rand_text(rng, BARE_ALPHA + QUOTED_EXTRA * 3, rng.randint(1, 14))
        elif r < 0.93:   # multi-line text (block only)
            s = '\n'.join(_rand_text(rng, BARE_ALPHA + ' #\'"=' * 3, rng.randint(0, 10)) for _ in range(rng.randint(2, 4)))
        else:
            s = rng.choice(['12', '-3.5', '1e3', '[1,2]', 'x=1', 'True', 'None', 'NONE', ' lead', 'trail ', 'two  blanks'])
        if str_ok(s) and s != '':
            return {'t': 'str', 'v': s}


def gen_scalar(rng, dt, sfx, json_only=False, small=False):
    if dt == 'bool':
        return {'t': 'bool', 'v': rng.random() < 0.5}
    if dt == 'int':
        return gen_int(rng, sfx, json_only, small)
    if dt == 'float':
        return gen_float(rng, json_only)
    return gen_str(rng)


def gen_arr_str(rng, loose_ok):
    alpha = ARR_TIGHT_ALPHA + (ARR_LOOSE_EXTRA * 3 if loose_ok else '')
    while True:
        s = _rand_text(rng, alpha, rng.randint(1, 8))
        if str_ok(s):
            return {'t': 'str', 'v': s}


def gen_array(rng, dt, sfx, shape, loose_ok):
    if not shape:
        if dt == 'str':
            return gen_arr_str(rng, loose_ok)
        return gen_scalar(rng, dt, sfx, json_only=True, small=True)
    return {'t': 'arr', 'items': [gen_array(rng, dt, sfx, shape[1:], loose_ok) for _ in range(shape[0])]}


def lit_value(lit):
    t = lit['t']
    if t == 'none':
        return None
    if t in ('bool', 'int', 'str'):
        return lit['v']
    if t == 'float':
        return float(lit['sign'] * Fraction(int(lit['digits'])) * Fraction(10) ** lit['exp'])
    return [lit_value(x) for x in lit['items']]


def lit_shape(lit):
    if lit['t'] == 'none':
        return None
    if lit['t'] != 'arr':
        return []
    if not lit['items']:
        return [0]
    return [len(lit['items'])] + lit_shape(lit['items'][0])


def lit_needs_loose(lit):
    """array string elements containing blank or # can only be written quoted / in a block"""
    if lit['t'] == 'arr':
        return any(lit_needs_loose(x) for x in lit['items'])
    if lit['t'] == 'str':
        return any(c in lit['v'] for c in ARR_LOOSE_EXTRA)
    return False


def scalar_txt(lit, json_form=False, sq=False):
    t = lit['t']
    if t == 'none':
        return 'none'
    if t == 'bool':
        return 'true' if lit['v'] else 'false'
    if t == 'int':
        return ('+' if lit.get('plus') and not json_form else '') + str(lit['v'])
    if t == 'float':
        return lit['txt']
    raise ValueError(t)


def json_txt(lit, R, loose, sq=False, nl=False, depth=0):
    """JSON text of an array literal; loose = blanks after commas / inside brackets; sq = single-quoted strings
    (documented in values.rst examples, not JSON); nl = rows on separate lines (block form)"""
    if lit['t'] == 'arr':
        parts = [json_txt(x, R, loose, sq, nl, depth + 1) for x in lit['items']]
        if nl and depth == 0 and parts and lit['items'][0]['t'] == 'arr':
            sep = ',\n' + ' ' * R.randint(0, 3)
        else:
            sep = ',' + (' ' * R.randint(1, 2) if loose else '')
        pad = ' ' if (loose and R.random() < 0.3) else ''
        return '[' + pad + sep.join(parts) + pad + ']'
    if lit['t'] == 'str':
        q = "'" if sq else '"'
        return q + lit['v'] + q
    return scalar_txt(lit, json_form=True)


# ------------------------------------------------------------------------------------------- tree generator

TYPES = [('bool', []), ('int', ['', '']), ('int', ['', '16']), ('int', ['', '32']), ('int', ['', '64']),
         ('int', ['u', '']), ('int', ['u', '16']), ('int', ['u', '32']), ('int', ['u', '64']),
         ('float', ['']), ('float', ['32']), ('float', ['64']), ('float', ['128']), ('str', [])]
TYPE_W = [4, 5, 1, 1, 1, 1, 1, 1, 1, 6, 1, 1, 1, 6]


def type_kw(dt, sfx):
    if dt == 'int':
        return sfx[0] + 'int' + sfx[1]
    if dt == 'float':
        return 'float' + sfx[0]
    return dt


def gen_name(rng, dotted_p=0.25):
    n = 1
    if rng.random() < dotted_p:
        n = rng.choice([2, 2, 3])
    return '.'.join(rng.choice(SEGS) for _ in range(n))


class TreeGen:
    def __init__(self, rng, max_lines=40, max_depth=6, table_children=0.0, p_empty=0.0, deep=False):
        self.rng = rng
        self.budget = rng.randint(3, max_lines)
        self.max_depth = max_depth - 1
        self.p_empty = p_empty
        self.deep = deep
        self.used = set()          # leaf paths
        self.vals = {}             # leaf path -> leaf (for repeated nodes)
        self.custom = []           # custom unit names defined so far (text order)
        self.table_children = table_children
        self.nunit = 0

    def fresh_name(self, prefix):
        for _ in range(50):
            name = gen_name(self.rng)
            if prefix + '.' + name not in self.used:
                return name
        return 'u%d' % len(self.used)

    def gen_leaf(self, prefix):
        rng = self.rng
        name = self.fresh_name(prefix)
        dt, sfx = rng.choices(TYPES, TYPE_W)[0]
        leaf = {'k': 'leaf', 'name': name, 'dt': dt, 'sfx': list(sfx), 'unit': None, 'ch': []}
        r = rng.random()
        if r < 0.05:
            leaf['val'] = {'t': 'none'}
        elif r < 0.30:
            nd = rng.choice([1, 1, 1, 2, 2, 3])
            shape = [rng.randint(1, 4 if nd == 1 else 3) for _ in range(nd)]
            if nd == 1 and rng.random() < 0.06:
                shape = [0]
            leaf['val'] = gen_array(rng, dt, sfx, shape, loose_ok=rng.random() < 0.5)
        else:
            leaf['val'] = gen_scalar(rng, dt, sfx)
            if dt == 'str' and rng.random() < self.p_empty:
                leaf['val'] = {'t': 'str', 'v': ''}
        if dt in ('int', 'float') and leaf['val']['t'] != 'none' and rng.random() < 0.45:
            if self.custom and rng.random() < 0.3:
                leaf['unit'] = '[' + rng.choice(self.custom) + ']'
            else:
                leaf['unit'] = rng.choice(PLAIN_UNITS)
        self.used.add(prefix + '.' + name)
        if leaf['val']['t'] in ('int', 'float', 'str', 'bool') and lit_value(leaf['val']) not in (0, '', None, False):
            self.vals[prefix + '.' + name] = leaf
        self.budget -= 1 + (2 if leaf['val']['t'] == 'arr' else 0)
        return leaf

    def gen_table(self, prefix):
        rng = self.rng
        for _ in range(50):
            name = gen_name(rng, 0.1)
            if not any(u == prefix + '.' + name or u.startswith(prefix + '.' + name + '.') for u in self.used):
                break
        ncol, nrow = rng.randint(1, 4), rng.randint(1, 4)
        cols, names = [], set()
        for _ in range(ncol):
            cn = rng.choice([s for s in SEGS if s not in names])
            names.add(cn)
            dt, sfx = rng.choices(TYPES, TYPE_W)[0]
            col = {'name': cn, 'dt': dt, 'sfx': list(sfx), 'unit': None, 'cell': None}
            if dt in ('int', 'float') and rng.random() < 0.4:
                col['unit'] = rng.choice(PLAIN_UNITS)
            if dt in ('int', 'float') and rng.random() < 0.15:
                col['cell'] = rng.randint(1, 3)
                col['vals'] = [gen_array(rng, dt, sfx, [col['cell']], False) for _ in range(nrow)]
            elif dt == 'str':
                col['vals'] = []
                for _ in range(nrow):
                    while True:
                        s = _rand_text(rng, CELL_ALPHA + ('   ' if rng.random() < 0.4 else ''), rng.randint(1, 8))
                        if str_ok(s) and s.strip() == s and '  ' not in s:
                            break
                    col['vals'].append({'t': 'str', 'v': s})
            else:
                col['vals'] = [gen_scalar(rng, dt, sfx, json_only=False, small=True) for _ in range(nrow)]
            cols.append(col)
            self.used.add(prefix + '.' + name + '.' + cn)
        self.budget -= 3 + ncol + nrow
        return {'k': 'table', 'name': name, 'cols': cols, 'ch': []}

    def gen_items(self, prefix, depth):
        rng = self.rng
        items = []
        n = rng.randint(1, 5) if depth else rng.randint(1, 7)
        if self.deep and depth:
            n = rng.choice([1, 1, 2, 3])
        for _ in range(n):
            if self.budget <= 0:
                break
            r = rng.random()
            if self.deep and depth < self.max_depth and r > 0.41 and rng.random() < 0.5:
                r = 0.2 if rng.random() < 0.5 else r        # more groups -> deep narrow trees
            if r < 0.05 and self.nunit < 3:
                self.nunit += 1
                uname = rng.choice(['len', 'ux', 'q_u', 'Tunit', 'myU'])
                if uname in self.custom:
                    continue
                num = rng.choice(['2.5', '10', '1e3', '0.125', '3'])
                items.append({'k': 'unit', 'name': uname, 'num': num, 'unit': rng.choice(['m', 's', 'kg', 'cm', 'J'])})
                self.custom.append(uname)
                self.budget -= 1
            elif r < 0.30 and depth < self.max_depth:
                name = gen_name(rng)
                self.budget -= 1
                g = {'k': 'group', 'name': name, 'ch': []}
                if rng.random() < 0.95:
                    g['ch'] = self.gen_items(prefix + '.' + name, depth + 1)
                items.append(g)
            elif r < 0.37:
                t = self.gen_table(prefix)
                if self.table_children and rng.random() < self.table_children and depth < self.max_depth:
                    t['ch'] = self.gen_items(prefix + '.' + t['name'], depth + 1)
                items.append(t)
            elif r < 0.41 and self.vals:
                # repeated node: same path, same type keyword, same unit, other (truthy) scalar value
                cands = [p for p in self.vals if p.startswith(prefix + '.')]
                if not cands:
                    continue
                p = rng.choice(sorted(cands))
                first = self.vals[p]
                leaf = {'k': 'leaf', 'name': p[len(prefix) + 1:], 'dt': first['dt'], 'sfx': list(first['sfx']),
                        'unit': first['unit'], 'ch': [], 'rep': True}
                while True:
                    leaf['val'] = gen_scalar(rng, first['dt'], first['sfx'])
                    if lit_value(leaf['val']) not in (0, '', None, False):
                        break
                self.budget -= 1
                items.append(leaf)
            else:
                leaf = self.gen_leaf(prefix)
                if depth < self.max_depth and rng.random() < 0.3 and self.budget > 0:
                    leaf['ch'] = self.gen_items(prefix + '.' + leaf['name'], depth + 1)
                items.append(leaf)
        return items


def gen_tree(rng, max_lines=40, max_depth=6, table_children=0.0, p_empty=0.0, deep=False):
    for _ in range(100):
        tg = TreeGen(rng, max_lines, max_depth, table_children, p_empty, deep)
        items = tg.gen_items('', 0)
        tree = {'items': items}
        if expected(tree):
            return tree
    raise RuntimeError('no tree')


# ------------------------------------------------------------------------------------------- model

CLS = {'bool': 'BooleanType', 'int': 'IntegerType', 'float': 'FloatType', 'str': 'StringType'}


def _record(path, dt, sfx, val_lit, unit, meta):
    rec = {'path': path, 'cls': CLS[dt], 'precision': None, 'unsigned': None, 'shape': lit_shape(val_lit),
           'value': lit_value(val_lit), 'unit': unit, 'dt': dt, 'meta': meta}
    if dt == 'int':
        rec['precision'] = int(sfx[1]) if sfx[1] else 32
        rec['unsigned'] = bool(sfx[0])
    elif dt == 'float':
        rec['precision'] = int(sfx[0]) if sfx[0] else 64
    return rec


def expected(tree):
    """ordered list of records: one per distinct path in order of first appearance (depth-first = text order)"""
    out, index = [], {}

    def walk(items, prefix):
        for it in items:
            if it['k'] == 'unit':
                continue
            path = (prefix + '.' if prefix else '') + it['name']
            if it['k'] == 'leaf':
                rec = _record(path, it['dt'], it['sfx'], it['val'], it['unit'], {'kind': 'leaf'})
                if path in index:      # repeated node: last value wins, position and type of the first occurrence
                    old = out[index[path]]
                    old['value'], old['shape'] = rec['value'], rec['shape']
                    old['meta'] = dict(old['meta'], repeated=True)
                else:
                    index[path] = len(out)
                    out.append(rec)
            elif it['k'] == 'table':
                for col in it['cols']:
                    lit = {'t': 'arr', 'items': col['vals']}
                    p = path + '.' + col['name']
                    index[p] = len(out)
                    out.append(_record(p, col['dt'], col['sfx'], lit, col['unit'], {'kind': 'table-col'}))
            walk(it.get('ch', []), path)
    walk(tree['items'], '')
    return out


def max_depth(tree):
    def d(items):
        return max([1 + d(it.get('ch', [])) for it in items if it['k'] != 'unit'] or [0])
    return d(tree['items'])


# ------------------------------------------------------------------------------------------- renderer

def bare_ok(s):
    return (s != '' and all(c in BARE_ALPHA for c in s) and s[0] not in '{(["\'' and s not in KEYWORDS
            and '#' not in s and ' ' not in s)


def quote(s, q):
    return q + s.replace(q, '\\' + q) + q


def dim_txt(shape, R):
    parts = []
    for n in shape:
        r = R.random()
        if r < 0.4:
            parts.append(str(n))
        elif r < 0.6:
            parts.append(':')
        elif r < 0.75:
            parts.append('%d:' % R.randint(0, n))
        elif r < 0.9:
            parts.append(':%d' % R.randint(n, n + 3))
        else:
            parts.append('%d:%d' % (R.randint(0, n), R.randint(n, n + 3)))
    return '[' + ','.join(parts) + ']'


def rand_comment(R, allow=''):
    n = R.randint(0, 18)
    return no_triple(''.join(R.choice(COMMENT_ALPHA + allow * 4) for _ in range(n)))


def no_triple(c):
    """comments never contain a run of double quotes (three of them would open a block)"""
    while '""' in c:
        c = c.replace('""', '"')
    return c


class Renderer:
    """render(tree) -> text; records classes and, per path, the triggers of known defects that were written"""

    def __init__(self, rseed, trig=None, neutral=False, plain=False):
        self.R = random.Random(rseed)
        self.trig = dict(greedy=0.0, sqarr=0.0)
        self.trig.update(trig or {})
        self.neutral = neutral
        self.plain = plain
        self.lines = []
        self.classes = set()
        self.triggers = {}      # path -> dict(kind=..., twin=...)
        self.fatal_budget = 1   # at most one potentially fatal trigger per rendering

    # ---- helpers
    def ws(self, lo=1, hi=3):
        return ' ' * (1 if self.plain else self.R.randint(lo, hi))

    def indent_str(self, n):
        if not self.plain and n and self.R.random() < 0.06:
            self.classes.add('indent-with-tabs')
            return ''.join(self.R.choice(' \t') for _ in range(n))
        return ' ' * n

    def filler(self):
        if self.plain:
            return
        R = self.R
        while R.random() < 0.18:
            if R.random() < 0.5:
                self.lines.append(R.choice(['', '', ' ', '    ', '\t']))
                self.classes.add('blank-line')
            else:
                self.lines.append(' ' * R.randint(0, 12) + '#' + rand_comment(R, '\'"'))
                self.classes.add('comment-line')

    def trailing(self, avoid='', minblank=0):
        """trailing comment (possibly none); avoid = quote characters that must not appear in it"""
        if self.plain:
            return ''
        R = self.R
        if R.random() < 0.35:
            self.classes.add('trailing-comment')
            allow = ''.join(q for q in '\'"' if q not in avoid)
            c = rand_comment(R, allow)
            for q in avoid:
                c = c.replace(q, '')
            c = no_triple(c)
            if allow and any(q in c for q in allow):
                self.classes.add('comment-with-quote-char')
            return ' ' * R.randint(minblank, 3) + '#' + c
        if R.random() < 0.15:
            return ' ' * R.randint(1, 3)       # trailing blanks
        return ''

    def greedy_comment(self, q):
        """trailing comment containing the quote character that delimits the value on the same line.
        returns (comment text, text up to and including the last q, fatal?)"""
        R = self.R
        if R.random() < 0.6:
            body = ' see ' + q + _rand_text(R, 'abcxyz ', R.randint(0, 4)) + q      # ends with q -> silent for strings
            rest = ''
        else:
            body = ' it' + q + 's ' + _rand_text(R, 'abcxyz', R.randint(1, 4))
            rest = body[body.rindex(q) + 1:]
        gap = ' ' * R.randint(1, 2)
        return gap + '#' + body, rest

    # ---- values
    def str_value(self, path, lit, force):
        """returns (value text on the node line or None for block, block lines, quote char used)"""
        R = self.R
        s = lit['v']
        styles = []
        if '\n' in s:
            styles = ['block']
        else:
            styles = ['sq', 'dq', 'block']
            if bare_ok(s):
                styles += ['bare', 'bare']
        style = force.get('style') or R.choice(styles)
        self.classes.add({'sq': 'str-single-quoted', 'dq': 'str-double-quoted', 'bare': 'str-bare',
                          'block': 'str-block'}[style])
        if ' ' in s and style != 'bare':
            self.classes.add('str-with-blank')
        if '#' in s and style != 'bare':
            self.classes.add('str-with-hash')
        if any(c in EXOTIC for c in s):
            self.classes.add('str-with-unusual-character')
        if style == 'sq' and "'" in s or style == 'dq' and '"' in s:
            self.classes.add('str-escaped-quote')
        if s == '':
            self.classes.add('str-empty')
            self.triggers[path] = dict(kind='empty-str')
        if style == 'block':
            return None, s.split('\n'), ''
        if style == 'bare':
            return s, None, ''
        q = "'" if style == 'sq' else '"'
        return quote(s, q), None, q

    def arr_value(self, path, leaf, force):
        R = self.R
        lit = leaf['val']
        need_loose = lit_needs_loose(lit)
        styles = ['quoted', 'block'] if need_loose else ['tight', 'tight', 'quoted', 'block']
        style = force.get('arr') or R.choice(styles)
        self.classes.add({'tight': 'array-inline-tight', 'quoted': 'array-quoted-loose', 'block': 'array-block'}[style])
        sq = False
        if leaf['dt'] == 'str' and lit_shape(lit) != [0]:
            want = force.get('arrq') == 'sq' or (not force.get('arrq') and self.fatal_budget > 0
                                                 and R.random() < self.trig['sqarr'])
            if want:
                self.fatal_budget -= 1
                self.triggers[path] = dict(kind='sq-array')
                self.classes.add('array-single-quoted-strings')
                sq = not self.neutral
        if style == 'tight':
            return json_txt(lit, R, loose=False, sq=sq), None, ''
        if style == 'quoted':
            q = '"' if sq else ("'" if leaf['dt'] == 'str' else R.choice('\'"'))
            # with the single-quote trigger (also in its neutralised twin) the comment avoids both quote characters,
            # so that the two texts differ in nothing but the quote characters of the array
            avoid = '\'"' if path in self.triggers else q
            return q + json_txt(lit, R, loose=True, sq=sq) + q, None, avoid
        txt = json_txt(lit, R, loose=R.random() < 0.5, sq=sq, nl=True)
        pad = ' ' * R.randint(0, 4)
        return None, [pad + l for l in txt.split('\n')], ''

    # ---- nodes
    def leaf_line(self, leaf, path, indent):
        R = self.R
        force = leaf.get('force', {})
        lit = leaf['val']
        kw = type_kw(leaf['dt'], leaf['sfx'])
        self.classes.add('type-' + kw)
        self.classes.add('scalar-' + leaf['dt'] if lit['t'] not in ('arr', 'none') else
                         ('array-' + leaf['dt'] if lit['t'] == 'arr' else 'value-none'))
        head = self.indent_str(indent) + leaf['name'] + self.ws() + kw
        q = ''
        block = None
        if lit['t'] == 'arr':
            shape = lit_shape(lit)
            head += dim_txt(shape, R)
            self.classes.add('array-%dd' % len(shape))
            if shape == [0]:
                self.classes.add('array-empty')
            vtxt, block, q = self.arr_value(path, leaf, force)
        elif lit['t'] == 'str':
            vtxt, block, q = self.str_value(path, lit, force)
        else:
            vtxt = scalar_txt(lit)
            if lit['t'] == 'int':
                self.classes.add('int-negative' if lit['v'] < 0 else ('int-plus-sign' if lit.get('plus') else 'int-unsigned-literal'))
            if lit['t'] == 'float':
                self.classes.add('float-form-' + lit['form'])
                if lit['sign'] < 0:
                    self.classes.add('float-negative')
        unit = ''
        if leaf['unit']:
            unit = self.ws() + leaf['unit']
            self.classes.add('unit')
            if leaf['unit'].startswith('['):
                self.classes.add('unit-custom')
            elif any(c in leaf['unit'] for c in '*/'):
                self.classes.add('unit-compound')
        if leaf.get('rep'):
            self.classes.add('repeated-node')
        if block is not None:
            self.lines.append(head + self.ws() + '=' + self.ws() + '"""')
            self.lines += block
            self.lines.append(self.indent_str(R.randint(0, 6) if not self.plain else 0) + '"""' + unit + self.trailing())
            return
        # trailing comment; deliberate trigger: the value's own quote character inside the comment
        cmt = None
        if 'comment' in force:
            cmt = force['comment']
            if q and q in cmt:
                rest = cmt[cmt.rindex(q) + 1:]
                self._greedy(path, leaf, vtxt, unit, cmt, q, rest)
                if self.neutral:
                    cmt = cmt.replace(q, '*')
        elif q and not self.plain and self.fatal_budget > 0 and R.random() < self.trig['greedy']:
            cmt, rest = self.greedy_comment(q)
            self.fatal_budget -= 1
            self._greedy(path, leaf, vtxt, unit, cmt, q, rest)
            if self.neutral:
                cmt = cmt.replace(q, '*')
        if cmt is None:
            cmt = self.trailing(avoid=q)
        self.lines.append(head + self.ws() + '=' + self.ws() + vtxt + unit + cmt)

    def _greedy(self, path, leaf, vtxt, unit, cmt, q, rest):
        """buggy twin of a greedy quote match: value = everything between the first and the last q of the line"""
        self.classes.add('comment-with-value-quote-char')
        whole = vtxt + unit + cmt
        inner = whole[1:whole.rindex(q)]
        twin = inner.replace('\\' + "'", "'").replace('\\' + '"', '"')
        silent = leaf['val']['t'] == 'str' and rest.strip() == ''
        self.triggers[path] = dict(kind='greedy', twin=twin, silent=silent)

    def table(self, t, path, indent):
        R = self.R
        self.classes.add('table')
        self.lines.append(self.indent_str(indent) + t['name'] + self.ws() + 'table' + self.ws() + '=' + self.ws() + '"""')
        for col in t['cols']:
            kw = type_kw(col['dt'], col['sfx'])
            self.classes.add('table-col-' + col['dt'])
            self.classes.add('type-' + kw)
            line = col['name'] + self.ws(1, 2) + kw
            if col['cell']:
                line += '[%d]' % col['cell']
                self.classes.add('table-array-cell')
            if col['unit']:
                line += self.ws(1, 2) + col['unit']
                self.classes.add('table-col-unit')
            self.lines.append(line)
        self.lines.append('')
        nrow = len(t['cols'][0]['vals'])
        for r in range(nrow):
            cells = []
            for col in t['cols']:
                lit = col['vals'][r]
                if lit['t'] == 'arr':
                    cells.append(json_txt(lit, R, loose=False))
                elif lit['t'] == 'str':
                    s = lit['v']
                    cells.append('"' + s + '"' if (' ' in s or R.random() < 0.3) else s)
                else:
                    cells.append(scalar_txt(lit))
            self.lines.append(' '.join(cells))
        for col in t['cols']:
            if col['dt'] == 'bool' and any(not v['v'] for v in col['vals']):
                self.triggers[path + '.' + col['name']] = dict(kind='bool-table-col', twin=[True] * nrow)
                self.classes.add('table-bool-col-with-false')
        self.lines.append(self.indent_str(0 if self.plain else R.randint(0, 6)) + '"""' + self.trailing())

    def items(self, items, prefix, parent_indent, depth):
        R = self.R
        cur = None
        for it in items:
            self.filler()
            if it['k'] == 'unit':
                ind = (parent_indent + 1 + R.randint(0, 4)) if parent_indent >= 0 else R.randint(0, 3)
                if self.plain:
                    ind = max(parent_indent + 2, 0) if parent_indent >= 0 else 0
                self.lines.append(' ' * ind + '$unit' + self.ws() + it['name'] + self.ws() + '=' + self.ws() +
                                  it['num'] + self.ws() + it['unit'] + self.trailing())
                self.classes.add('unit-directive')
                if parent_indent >= 0:
                    self.classes.add('unit-directive-inside-hierarchy')
                continue
            # indentation of this sibling: first child fixes the width; later siblings normally reuse it,
            # a minority uses a smaller (still deeper than the parent) indentation = irregular but valid
            if cur is None:
                if parent_indent < 0:
                    cur = 0
                    if not self.plain and R.random() < 0.08:
                        cur = R.randint(1, 6)
                        self.classes.add('indented-root')
                else:
                    cur = parent_indent + (2 if self.plain else R.choice([1, 2, 2, 2, 3, 4, 4, 4, 5, 8]))
                    self.classes.add('indent-width-%d' % min(cur - parent_indent, 8))
            elif not self.plain and cur - 1 > parent_indent and R.random() < 0.05:
                cur = R.randint(parent_indent + 1, cur - 1)
                self.classes.add('irregular-sibling-indent')
            path = (prefix + '.' if prefix else '') + it['name']
            if '.' in it['name']:
                self.classes.add('dotted-name' + ('-below-parent' if depth else '-at-root'))
            if '-' in it['name']:
                self.classes.add('name-with-hyphen')
            if it['k'] == 'group':
                self.lines.append(self.indent_str(cur) + it['name'] + self.trailing(minblank=1))
                self.classes.add('group')
            elif it['k'] == 'leaf':
                self.leaf_line(it, path, cur)
                if it['ch']:
                    self.classes.add('typed-node-as-parent')
                    if it['val']['t'] == 'arr' or (it['val']['t'] == 'str' and '\n' in it['val']['v']):
                        self.classes.add('array-or-block-node-as-parent')
            else:
                self.table(it, path, cur)
                if it['ch']:
                    self.classes.add('table-as-parent')
            if it.get('ch'):
                self.items(it['ch'], path, cur, depth + 1)

    def render(self, tree):
        self._deindent(tree)
        self.items(tree['items'], '', -1, 0)
        return '\n'.join(self.lines)

    def _deindent(self, tree):
        """class bookkeeping: by how many levels does the hierarchy close between consecutive node lines"""
        seq = []

        def walk(items, d):
            for it in items:
                if it['k'] == 'unit':
                    continue
                seq.append(d)
                walk(it.get('ch', []), d + 1)
        walk(tree['items'], 0)
        for a, b in zip(seq, seq[1:]):
            if a - b >= 1:
                self.classes.add('deindent-by-%d' % min(a - b, 5))
            if a - b >= 2:
                self.classes.add('deindent-by->=2')
        if seq:
            self.classes.add('depth-%d' % min(max(seq) + 1, 7))


def render(tree, rseed, trig=None, neutral=False, plain=False):
    r = Renderer(rseed, trig, neutral, plain)
    text = r.render(tree)
    return dict(text=text, classes=sorted(r.classes), triggers=r.triggers)


# ------------------------------------------------------------------------------------------- step budget

class StepBudgetExceeded(BaseException):
    pass


class StepGuard:
    """logical-step guard: counts PY_START and JUMP events (sys.monitoring tool id 3) while armed and raises
    StepBudgetExceeded from the event once the budget is used up (sticky: every further event raises again, so a
    bare `except:` in the code under test cannot swallow it)."""
    TOOL = 3
    MIN_BUDGET = 5_000_000

    def __init__(self):
        self.mon = sys.monitoring
        self.count = 0
        self.budget = self.MIN_BUDGET
        self.armed = False
        self.max_accepted = 0
        if self.mon.get_tool(self.TOOL) is None:
            self.mon.use_tool_id(self.TOOL, 'vt-steps')
        ev = self.mon.events
        self.mon.register_callback(self.TOOL, ev.PY_START, self._start)
        self.mon.register_callback(self.TOOL, ev.JUMP, self._jump)

    def _start(self, code, off):
        if self.armed:
            self.count += 1
            if self.count > self.budget:
                raise StepBudgetExceeded(self.count)

    def _jump(self, code, src, dst):
        if self.armed:
            self.count += 1
            if self.count > self.budget:
                raise StepBudgetExceeded(self.count)

    def run(self, fn):
        """returns ('ok', result) | ('exc', exception) | ('budget', steps)"""
        ev = self.mon.events
        self.budget = max(self.MIN_BUDGET, 200 * self.max_accepted)
        self.count = 0
        self.armed = True
        self.mon.set_events(self.TOOL, ev.PY_START | ev.JUMP)
        try:
            res = ('ok', fn())
        except StepBudgetExceeded:
            res = ('budget', None)
        except Exception as e:            # noqa: the code under test raises plain Exception
            res = ('exc', e)
        finally:
            self.armed = False
            self.mon.set_events(self.TOOL, 0)
        if self.count > self.budget:
            return ('budget', self.count)
        if res[0] == 'ok':
            self.max_accepted = max(self.max_accepted, self.count)
        return res
