"""Global-table snapshot invariant for the process-wide unit tables.

digest()   -> hashable picture of UNIT_STANDARD (keys in order + rows), UNIT_PREFIXES and UNIT_TYPES
Hygiene    -> used by every worker that touches units/DIP: after each case the tables are compared with the
              start-up snapshot and restored if a case leaked (the leak is counted, never carried into the next case).
"""


def _row(v):
    out = []
    for f in ('magnitude', 'dimensions', 'definition', 'name', 'prefixes'):
        x = getattr(v, f, None)
        if isinstance(x, (list, tuple)):
            x = tuple(x)
        elif not isinstance(x, (str, int, float, bool, type(None))):
            x = ('obj', getattr(x, '__name__', type(x).__name__))
        out.append(x)
    return tuple(out)


def digest():
    from scinumtools.units import settings as S
    std = tuple((k, _row(S.UNIT_STANDARD._data[k])) for k in list(S.UNIT_STANDARD._keys))
    std_data_keys = tuple(S.UNIT_STANDARD._data.keys())
    pre = tuple((k, _row(S.UNIT_PREFIXES._data[k])) for k in list(S.UNIT_PREFIXES._keys))
    types = tuple(getattr(t, '__name__', repr(t)) for t in S.UNIT_TYPES)
    return (std, std_data_keys, pre, types)


def diff(a, b):
    """human-readable difference between two digests"""
    out = {}
    ka, kb = [k for k, _ in a[0]], [k for k, _ in b[0]]
    if ka != kb:
        out['unit_keys_added'] = [k for k in kb if k not in ka]
        out['unit_keys_removed'] = [k for k in ka if k not in kb]
        if not out['unit_keys_added'] and not out['unit_keys_removed']:
            out['unit_keys_reordered'] = True
    da, db = dict(a[0]), dict(b[0])
    ch = [k for k in da if k in db and da[k] != db[k]]
    if ch:
        out['unit_rows_changed'] = ch
    if a[1] != b[1] and not out:
        out['unit_data_keys_differ'] = True
    if a[2] != b[2]:
        out['prefixes_changed'] = True
    if a[3] != b[3]:
        out['types'] = dict(before=list(a[3]), after=list(b[3]))
    return out


class Hygiene:
    def __init__(self):
        import copy
        from scinumtools.units import settings as S
        self.S = S
        self.base = digest()
        self.keys = list(S.UNIT_STANDARD._keys)
        self.data = dict(S.UNIT_STANDARD._data)
        self.pkeys = list(S.UNIT_PREFIXES._keys)
        self.pdata = dict(S.UNIT_PREFIXES._data)
        self.types = list(S.UNIT_TYPES)
        self.leaks = 0

    def check_restore(self):
        """returns None if clean, else the diff (and restores the tables in place)"""
        now = digest()
        if now == self.base:
            return None
        d = diff(self.base, now)
        S = self.S
        S.UNIT_STANDARD._keys[:] = self.keys
        S.UNIT_STANDARD._data.clear(); S.UNIT_STANDARD._data.update(self.data)
        S.UNIT_PREFIXES._keys[:] = self.pkeys
        S.UNIT_PREFIXES._data.clear(); S.UNIT_PREFIXES._data.update(self.pdata)
        S.UNIT_TYPES[:] = self.types
        self.leaks += 1
        return d
