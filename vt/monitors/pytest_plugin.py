"""pytest plugin: run the repository's own tests with the harness contracts active in record-only mode.

    VERIF_CONTRACTS=quantity,magnitude,tables VERIF_CONTRACT_OUT=<file> python -m pytest -p vt.monitors.pytest_plugin <tests>

Everything the contracts record is attributed to the test during which it was recorded and written to VERIF_CONTRACT_OUT.
"""
import os, json

_state = dict(records=[], current=None)


def pytest_configure(config):
    which = os.environ.get('VERIF_CONTRACTS', 'quantity').split(',')
    from vt.monitors import contracts as C
    if 'quantity' in which:
        C.install_quantity_contracts()
    if 'magnitude' in which:
        C.install_magnitude_contracts()
    if 'tables' in which:
        from vt.monitors import tables
        _state['digest'] = tables.digest()
        _state['tables'] = tables


def pytest_runtest_setup(item):
    from vt.monitors import contracts as C
    C.take_records()
    _state['current'] = item.nodeid


def pytest_runtest_teardown(item, nextitem):
    from vt.monitors import contracts as C
    for r in C.take_records():
        r['test'] = item.nodeid
        _state['records'].append(r)
    if 'tables' in _state:
        now = _state['tables'].digest()
        if now != _state['digest']:
            _state['records'].append(dict(contract='unit-tables-unchanged-after-test', method='(test)', test=item.nodeid,
                                          diff=_state['tables'].diff(_state['digest'], now)))
            _state['digest'] = now


def pytest_sessionfinish(session, exitstatus):
    from vt.monitors import contracts as C
    out = os.environ.get('VERIF_CONTRACT_OUT')
    if out:
        with open(out, 'w') as f:
            json.dump(dict(records=_state['records'], counts=C.COUNTS, exitstatus=int(exitstatus)), f, default=repr)
