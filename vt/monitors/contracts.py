"""icontract post-conditions attached to the REAL scinumtools classes (no edit of the repository).

Quantity contracts (C07):  every Quantity ever constructed is entered into a weak LIVE registry.
  * non-mutating methods (operators, comparisons, NumPy protocol, value(), units(), HANDLED_FUNCTIONS entries):
        post: every quantity that was alive at entry reports the same fingerprint at exit
  * in-place methods (to, rebase, abse(e), rele(e)):
        post: every quantity alive at entry EXCEPT self reports the same fingerprint at exit
Conditions record into RECORDS and return True (record-only), so an observation never aborts what it observes.

Magnitude contracts (C08) live in install_magnitude_contracts().
"""
import weakref
import icontract

RECORDS = []          # dicts(contract=..., method=..., ...)
COUNTS = {}           # contract evaluations per method
LIVE = {}             # id -> weakref
_installed = {}


class ContractBroken(Exception):
    pass


def fingerprint(q):
    import numpy as np
    m = q.magnitude

    def enc(x):
        if isinstance(x, np.ndarray):
            return ('nd', x.dtype.str, x.shape, x.tobytes())
        return (type(x).__name__, repr(x))
    bu = q.baseunits
    return (enc(m.value), enc(m.error), bu.expression,
            tuple(sorted((k, str(f)) for k, f in bu.baseunits.items())), enc(bu.magnitude))


def describe(fp):
    v, e, expr, um, mag = fp
    vv = v[1] if v[0] != 'nd' else 'array%s' % (v[2],)
    return dict(value=(v[0], vv if len(str(vv)) < 60 else str(vv)[:60]), error=e[1] if e[0] != 'nd' else 'array', units=expr, unit_factor=mag)


def _register(q):
    i = id(q)

    def gone(_r, i=i):
        LIVE.pop(i, None)
    try:
        LIVE[i] = weakref.ref(q, gone)
    except TypeError:
        pass


def live_snapshot(exclude=None):
    out = {}
    for i, r in list(LIVE.items()):
        q = r()
        if q is None or q is exclude:
            continue
        try:
            out[i] = (r, fingerprint(q))
        except Exception:
            pass          # object under construction
    return out


def _compare(method, snap, inplace):
    COUNTS[method] = COUNTS.get(method, 0) + 1
    for i, (r, before) in snap.items():
        q = r()
        if q is None:
            continue
        try:
            after = fingerprint(q)
        except Exception:
            continue
        if after != before:
            RECORDS.append(dict(contract='only-self-changes' if inplace else 'operands-unchanged', method=method,
                                obj=i, before=describe(before), after=describe(after)))
    return True


def install_quantity_contracts():
    """idempotent; returns COUNTS"""
    if _installed.get('quantity'):
        return COUNTS
    from scinumtools.units import quantity as QM
    Q = QM.Quantity

    orig_init = Q.__init__

    def __init__(self, *a, **k):
        orig_init(self, *a, **k)
        _register(self)
    __init__.__wrapped__ = orig_init
    Q.__init__ = __init__

    def wrap_pure(fn, name):
        def cap_live():
            return live_snapshot()

        def post_live(OLD):
            return _compare(name, OLD.live, False)
        return icontract.snapshot(cap_live, name='live')(icontract.ensure(post_live, error=ContractBroken)(fn))

    def wrap_inplace(fn, name):
        def cap_live(self):
            return live_snapshot(exclude=self)

        def post_live(self, OLD):
            return _compare(name, OLD.live, True)
        return icontract.snapshot(cap_live, name='live')(icontract.ensure(post_live, error=ContractBroken)(fn))

    pure = ['__add__', '__radd__', '__sub__', '__rsub__', '__mul__', '__rmul__', '__truediv__', '__rtruediv__', '__pow__',
            '__neg__', '__eq__', '__getitem__', '__array_ufunc__', 'value', 'units', '__str__', '__repr__']
    for n in pure:
        setattr(Q, n, wrap_pure(getattr(Q, n), 'Quantity.' + n))
    # abse()/rele() are getters without argument and setters with one: the in-place contract is the weaker one and holds for both
    for n in ['to', 'rebase', 'abse', 'rele']:
        setattr(Q, n, wrap_inplace(getattr(Q, n), 'Quantity.' + n))
    # registry bound before decoration: patch entry by entry
    for f, impl in list(QM.HANDLED_FUNCTIONS.items()):
        QM.HANDLED_FUNCTIONS[f] = wrap_pure(impl, 'HANDLED.' + getattr(f, '__name__', str(f)))
    _installed['quantity'] = True
    return COUNTS


def take_records():
    out = list(RECORDS)
    del RECORDS[:]
    return out


# ------------------------------------------------------------------------------------------------ C08
def _nonneg(e):
    import numpy as np
    if e is None:
        return True
    try:
        return bool(np.all(np.asarray(e, dtype=float) >= 0))
    except Exception:
        return True


def _arr(x):
    import numpy as np
    return np.asarray(x, dtype=float)


def _eq(a, b, rtol=1e-9):
    import numpy as np
    a, b = _arr(a), _arr(b)
    try:
        return bool(np.all(np.abs(a - b) <= rtol * np.maximum(np.abs(a), np.abs(b)) + 1e-300))
    except Exception:
        return False


def _ge(a, b, slack=1e-12, absolute=0.0):
    """a >= b up to rounding; `absolute` is the rounding error of the subtraction the code under test had to make
    (an interval half-width is a difference of two numbers of the size of the result itself)"""
    import numpy as np
    a, b = _arr(a), _arr(b)
    return bool(np.all(a >= b * (1 - slack) - 1e-300 - absolute))


def _rec08(name, what, **kw):
    RECORDS.append(dict(contract='C08:' + what, method=name, **{k: repr(v)[:120] for k, v in kw.items()}))


def _is_decimal(*xs):
    from decimal import Decimal
    return any(isinstance(x, Decimal) for x in xs)


def install_magnitude_contracts():
    if _installed.get('magnitude'):
        return COUNTS
    import numpy as np
    from scinumtools.units import magnitude as MM
    from scinumtools.units import unit_types as UT
    M = MM.Magnitude

    def binary_post(name):
        def post(left, right, result):
            COUNTS[name] = COUNTS.get(name, 0) + 1
            if _is_decimal(left.value, right.value):
                return True
            if not (_nonneg(left.error) and _nonneg(right.error)):
                COUNTS[name + ':precondition-not-met'] = COUNTS.get(name + ':precondition-not-met', 0) + 1
                return True
            try:
                if np.any(~np.isfinite(_arr(left.value))) or np.any(~np.isfinite(_arr(right.value))) or \
                        (result.error is not None and np.any(~np.isfinite(_arr(result.error)))):
                    return True
            except Exception:
                return True
            ea, eb, er = left.error, right.error, result.error
            a, b = left.value, right.value
            info = dict(a=a, ea=ea, b=b, eb=eb, er=er)
            if not _nonneg(er):
                _rec08(name, 'negative-uncertainty', **info)
                return True
            if ea is None and eb is None:
                if er is not None:
                    _rec08(name, 'exact-operands-give-uncertain-result', **info)
                return True
            if er is None:
                _rec08(name, 'uncertainty-lost', **info)
                return True
            kind = name.split('.')[-1]
            if kind in ('_add', '_sub'):
                exp = (0 if ea is None else _arr(ea)) + (0 if eb is None else _arr(eb))
                if not _eq(er, exp):
                    _rec08(name, 'sum-uncertainty-is-not-sum-of-uncertainties', expected=exp, **info)
            elif kind == '_mul':
                if ea is not None and eb is None:
                    if not _eq(er, np.abs(_arr(b)) * _arr(ea)):
                        _rec08(name, 'exact-factor-does-not-scale-uncertainty-by-abs', expected=np.abs(_arr(b)) * _arr(ea), **info)
                elif ea is None and eb is not None:
                    if not _eq(er, np.abs(_arr(a)) * _arr(eb)):
                        _rec08(name, 'exact-factor-does-not-scale-uncertainty-by-abs', expected=np.abs(_arr(a)) * _arr(eb), **info)
                elif np.all(_arr(a) > 0) and np.all(_arr(b) > 0):
                    if not _ge(er, np.abs(_arr(a)) * _arr(eb) + np.abs(_arr(b)) * _arr(ea), absolute=16 * np.finfo(float).eps * np.abs(_arr(a) * _arr(b))):
                        _rec08(name, 'product-uncertainty-below-first-order', **info)
            elif kind == '_truediv':
                if ea is not None and eb is None:
                    if np.all(_arr(b) != 0) and not _eq(er, _arr(ea) / np.abs(_arr(b))):
                        _rec08(name, 'exact-divisor-does-not-scale-uncertainty-by-abs', expected=_arr(ea) / np.abs(_arr(b)), **info)
                elif ea is not None and eb is not None and np.all(_arr(a) > 0) and np.all(_arr(b) > 0) and np.all(_arr(b) > _arr(eb)):
                    if not _ge(er, _arr(ea) / _arr(b) + _arr(a) * _arr(eb) / _arr(b) ** 2, absolute=16 * np.finfo(float).eps * np.abs(_arr(a) / _arr(b))):
                        _rec08(name, 'quotient-uncertainty-below-first-order', **info)
            return True
        return post

    for n in ['_add', '_sub', '_mul', '_truediv']:
        setattr(M, n, icontract.ensure(binary_post('Magnitude.' + n), error=ContractBroken)(getattr(M, n)))

    def pow_post(self, power, result):
        name = 'Magnitude.__pow__'
        COUNTS[name] = COUNTS.get(name, 0) + 1
        if _is_decimal(self.value) or not _nonneg(self.error):
            return True
        if self.error is None:
            if result.error is not None:
                _rec08(name, 'exact-operands-give-uncertain-result', a=self.value, power=power, er=result.error)
        elif result.error is not None and np.all(np.isfinite(_arr(result.error))) and not _nonneg(result.error):
            _rec08(name, 'negative-uncertainty', a=self.value, ea=self.error, power=power, er=result.error)
        return True
    M.__pow__ = icontract.ensure(pow_post, error=ContractBroken)(M.__pow__)

    def neg_post(self, result):
        name = 'Magnitude.__neg__'
        COUNTS[name] = COUNTS.get(name, 0) + 1
        if _is_decimal(self.value) or not _nonneg(self.error):
            return True
        if self.error is None:
            if result.error is not None:
                _rec08(name, 'exact-operands-give-uncertain-result', a=self.value, er=result.error)
        elif result.error is None:
            _rec08(name, 'uncertainty-lost', a=self.value, ea=self.error)
        elif not _nonneg(result.error):
            _rec08(name, 'negative-uncertainty', a=self.value, ea=self.error, er=result.error)
        elif not _eq(result.error, self.error):
            _rec08(name, 'negation-changes-uncertainty', a=self.value, ea=self.error, er=result.error)
        return True
    M.__neg__ = icontract.ensure(neg_post, error=ContractBroken)(M.__neg__)

    def convert_old_error(magnitude1):
        e = magnitude1.error
        return e.copy() if hasattr(e, 'copy') else e

    def convert_post(self, magnitude1, result, OLD):
        name = 'UnitType.convert'
        COUNTS[name] = COUNTS.get(name, 0) + 1
        if _is_decimal(magnitude1.value, self.baseunits1.magnitude, self.baseunits2.magnitude) or not _nonneg(OLD.e0):
            return True
        e0, e1 = OLD.e0, result.error
        if e0 is not None and magnitude1.error is not None and not _eq(magnitude1.error, e0, 0.0):
            _rec08(name, 'conversion-changes-uncertainty-of-its-source', before=e0, after=magnitude1.error,
                   units=(self.baseunits1.expression, self.baseunits2.expression))
        if e0 is None:
            if e1 is not None:
                _rec08(name, 'exact-operands-give-uncertain-result', x=magnitude1.value, er=e1)
            return True
        if e1 is None:
            _rec08(name, 'uncertainty-lost', x=magnitude1.value, e=e0)
            return True
        if not _nonneg(e1):
            _rec08(name, 'negative-uncertainty', x=magnitude1.value, e=e0, er=e1)
            return True
        if getattr(self, 'conversion', (None,))[0] == '_convert_linear':
            COUNTS[name + ':linear-with-uncertainty'] = COUNTS.get(name + ':linear-with-uncertainty', 0) + 1
            f = float(self.baseunits1.magnitude) / float(self.baseunits2.magnitude)
            if not _eq(e1, _arr(e0) * f):
                _rec08(name, 'linear-conversion-does-not-scale-uncertainty', x=magnitude1.value, e=e0, er=e1, factor=f,
                       units=(self.baseunits1.expression, self.baseunits2.expression))
        return True
    UT.UnitType.convert = icontract.snapshot(convert_old_error, name='e0')(icontract.ensure(convert_post, error=ContractBroken)(UT.UnitType.convert))
    _installed['magnitude'] = True
    return COUNTS
