#!/usr/bin/env bash
# Offline installation of the contract libraries beside the repository's interpreter.
set -e
HERE="$(cd "$(dirname "${BASH_SOURCE[0]}")" && pwd)"
cd "$HERE"
mkdir -p .deps out/replays evidence
if [ ! -d .deps/icontract ]; then
  PIP_NO_INDEX=1 /venv/bin/pip install --quiet --no-index --find-links /opt/veriftools/wheels \
      --target "$HERE/.deps" icontract deal
fi
/venv/bin/python - <<'EOF'
import sys
sys.path.insert(0, '.deps')
import icontract, deal
print('icontract', icontract.__version__, 'deal ok')
EOF
