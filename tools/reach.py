#!/usr/bin/env python3
"""Diagnostic: which lines of a property's anchor files does its quick workload drive?

    python3 tools/reach.py C07 [tier]

Runs ./check <ID> <tier> with VERIF_COVERAGE_DIR set (workers record line coverage of the repository sources with
coverage.py), combines the per-worker data and prints, per anchor file of the property, the executable lines that were
never executed, grouped by function.  Writes out/reach/<ID>.json.  Not part of any registered command: it is the tool
used to look for paths a workload does not reach BEFORE a seeded change finds them (guidance: a monitor says nothing
about paths the workload never drives)."""
import sys, os, json, subprocess, shutil, tempfile, ast

HERE = os.path.dirname(os.path.dirname(os.path.abspath(__file__)))
REPO = os.environ.get('VERIF_REPO', '/repo')


def functions_of(path):
    tree = ast.parse(open(path).read())
    spans = []
    for node in ast.walk(tree):
        if isinstance(node, (ast.FunctionDef, ast.AsyncFunctionDef)):
            spans.append((node.lineno, node.end_lineno, node.name))
    return spans


def main():
    pid = sys.argv[1].upper()
    tier = sys.argv[2] if len(sys.argv) > 2 else 'quick'
    extra = sys.argv[3:]
    props = {json.loads(l)['id']: json.loads(l) for l in open(os.path.join(HERE, 'properties.jsonl'))}
    anchors = list(props[pid]['anchors']['files']) + extra
    covdir = tempfile.mkdtemp(prefix='vt_reach_')
    env = dict(os.environ, VERIF_COVERAGE_DIR=covdir, VERIF_EVIDENCE_DIR=os.path.join(covdir, 'evidence'))
    os.makedirs(env['VERIF_EVIDENCE_DIR'], exist_ok=True)
    p = subprocess.run([os.path.join(HERE, 'check'), pid, tier], env=env, capture_output=True, text=True)
    print(p.stdout.strip().splitlines()[-1][:200])
    import coverage
    cov = coverage.Coverage(data_file=os.path.join(covdir, 'cov'))
    cov.combine([covdir])
    data = cov.get_data()
    out = {}
    for a in anchors:
        path = os.path.join(REPO, a)
        if not os.path.exists(path):
            continue
        try:
            _, statements, _, missing, _ = cov.analysis2(path)
        except Exception as e:
            print(a, 'not measured:', e)
            continue
        spans = functions_of(path)
        src = open(path).read().splitlines()
        byfn = {}
        for ln in missing:
            fn = [n for a0, b0, n in spans if a0 <= ln <= b0]
            byfn.setdefault(fn[-1] if fn else '<module>', []).append(ln)
        out[a] = dict(statements=len(statements), missing=len(missing), by_function=byfn)
        print('== %s: %d of %d statements never executed' % (a, len(missing), len(statements)))
        for fn, lines in byfn.items():
            print('   %s:' % fn)
            for ln in lines:
                print('      %4d  %s' % (ln, src[ln - 1].strip()[:110]))
    os.makedirs(os.path.join(HERE, 'out', 'reach'), exist_ok=True)
    json.dump(out, open(os.path.join(HERE, 'out', 'reach', pid + '.json'), 'w'), indent=1)
    shutil.rmtree(covdir, ignore_errors=True)


if __name__ == '__main__':
    main()
