#!/usr/bin/env python3
"""Automatic first-order mutants of the anchor files, as a search for blind spots of the checks (diagnostic, not registered).

    python3 tools/automutate.py [--per-file 20] [--jobs 5] [--seed 1] [--only C10,C11] [file ...]

For every source file that a property is anchored in (or the files given), small syntactic mutants are generated from the
AST (comparison operator replaced, + <-> -, * <-> /, and <-> or, `not` dropped, if-condition negated, integer constant
+1, True <-> False, one assignment / call statement deleted).  A random sample per file is tried on a scratch copy of /repo
under /tmp (removed afterwards):
  1. the repository's own test-suite (-x): a mutant it kills is of no interest ("killed-by-tests");
  2. the quick tier of every check whose property is anchored in that file (VERIF_REPO=<scratch>): exit 1 -> "caught".
What is left ("survived") is written to out/automut/survivors/ as a diff and has to be read: equivalent mutant, behaviour
outside every property, or a hole in a workload / oracle.  Results: out/automut/results.jsonl."""
import ast, os, sys, json, random, subprocess, tempfile, shutil, difflib, time
from concurrent.futures import ThreadPoolExecutor

HERE = os.path.dirname(os.path.dirname(os.path.abspath(__file__)))
REPO = '/repo'
CMP = {ast.Lt: [ast.LtE, ast.Gt], ast.LtE: [ast.Lt], ast.Gt: [ast.GtE, ast.Lt], ast.GtE: [ast.Gt], ast.Eq: [ast.NotEq], ast.NotEq: [ast.Eq],
       ast.Is: [ast.IsNot], ast.IsNot: [ast.Is], ast.In: [ast.NotIn], ast.NotIn: [ast.In]}
BIN = {ast.Add: ast.Sub, ast.Sub: ast.Add, ast.Mult: ast.Div, ast.Div: ast.Mult}


def anchors():
    m = {}
    for l in open(os.path.join(HERE, 'properties.jsonl')):
        p = json.loads(l)
        for f in p['anchors']['files']:
            if f.startswith('src/') and f.endswith('.py'):
                m.setdefault(f, []).append(p['id'])
    return m


def seg(src_lines, node):
    """(start offset, end offset) of a node in the joined source"""
    offs = [0]
    for ln in src_lines:
        offs.append(offs[-1] + len(ln))
    # col offsets are in utf8 bytes; sources are ascii apart from comments - convert through the line
    def pos(lineno, col):
        line = src_lines[lineno - 1]
        return offs[lineno - 1] + len(line.encode('utf8')[:col].decode('utf8', 'ignore'))
    return pos(node.lineno, node.col_offset), pos(node.end_lineno, node.end_col_offset)


def mutants_of(path):
    src = open(path).read()
    lines = src.splitlines(keepends=True)
    tree = ast.parse(src)
    out = []

    def repl(node, new_text, what):
        a, b = seg(lines, node)
        out.append((what + ' @%d' % node.lineno, src[:a] + new_text + src[b:]))

    import copy
    for fn in ast.walk(tree):
        if not isinstance(fn, (ast.FunctionDef, ast.AsyncFunctionDef)):
            continue
        if fn.name in ('__str__', '__repr__', '_to_string', 'print', '_print', '_print_table', 'print_components', 'print_composite', 'print_matter',
                       '_str', 'parse_string', 'formatter', 'parse_docs', 'to_dataframe', 'to_text', 'to_csv', 'to_file'):
            continue
        for node in ast.walk(fn):
            if isinstance(node, ast.Compare) and len(node.ops) == 1 and type(node.ops[0]) in CMP:
                for alt in CMP[type(node.ops[0])]:
                    n2 = copy.deepcopy(node); n2.ops = [alt()]
                    repl(node, ast.unparse(n2), 'cmp %s->%s' % (type(node.ops[0]).__name__, alt.__name__))
            elif isinstance(node, ast.BinOp) and type(node.op) in BIN:
                if isinstance(node.left, ast.Constant) and isinstance(node.left.value, str) or isinstance(node.right, ast.Constant) and isinstance(node.right.value, str):
                    continue
                if isinstance(node.left, ast.JoinedStr) or isinstance(node.right, ast.JoinedStr):
                    continue
                n2 = copy.deepcopy(node); n2.op = BIN[type(node.op)]()
                repl(node, '(' + ast.unparse(n2) + ')', 'bin %s->%s' % (type(node.op).__name__, BIN[type(node.op)].__name__))
            elif isinstance(node, ast.BoolOp):
                n2 = copy.deepcopy(node); n2.op = ast.Or() if isinstance(node.op, ast.And) else ast.And()
                repl(node, '(' + ast.unparse(n2) + ')', 'bool %s' % type(node.op).__name__)
            elif isinstance(node, ast.UnaryOp) and isinstance(node.op, ast.Not):
                repl(node, '(' + ast.unparse(node.operand) + ')', 'not-dropped')
            elif isinstance(node, (ast.If, ast.While)) and not isinstance(node.test, ast.Constant):
                repl(node.test, 'not (' + ast.unparse(node.test) + ')', 'condition-negated')
            elif isinstance(node, ast.IfExp):
                repl(node.test, 'not (' + ast.unparse(node.test) + ')', 'ifexp-negated')
            elif isinstance(node, ast.Constant) and isinstance(node.value, bool):
                repl(node, str(not node.value), 'bool-const')
            elif isinstance(node, ast.Constant) and isinstance(node.value, int) and not isinstance(node.value, bool) and abs(node.value) < 1000:
                repl(node, str(node.value + 1), 'int-const+1')
            elif isinstance(node, (ast.Assign, ast.AugAssign)) or (isinstance(node, ast.Expr) and isinstance(node.value, ast.Call)):
                if node.end_lineno == node.lineno:
                    repl(node, 'pass', 'statement-deleted')
    # only mutants that still compile
    good = []
    for what, s in out:
        try:
            compile(s, path, 'exec')
            good.append((what, s))
        except SyntaxError:
            pass
    return src, good


def run_mutant(rel, what, new_src, checks, idx, outdir):
    d = tempfile.mkdtemp(prefix='vam_', dir='/tmp')
    t0 = time.time()
    rec = dict(file=rel, mutation=what, n=idx, checks=checks)
    try:
        subprocess.run(['rsync', '-a', '--exclude', '.git', REPO + '/', d + '/'], check=True)
        old = open(os.path.join(d, rel)).read()
        open(os.path.join(d, rel), 'w').write(new_src)
        try:
            t = subprocess.run(['/venv/bin/python', '-m', 'pytest', '-q', '-p', 'no:cacheprovider', '-x', '-n', '4', '--timeout=300', 'tests'],
                               cwd=d, capture_output=True, text=True, env=dict(os.environ, PYTHONPATH=d + '/src'), timeout=900)
            rec['tests'] = (t.stdout.strip().splitlines() or ['?'])[-1][:80]
            passed = t.returncode == 0
        except subprocess.TimeoutExpired:
            rec['tests'] = 'timeout'
            passed = False
        if not passed:
            rec['verdict'] = 'killed-by-tests'
            return rec
        rec['verdict'] = 'survived'
        rec['by'] = {}
        for pid in checks:
            env = dict(os.environ, VERIF_REPO=d, VERIF_JOBS='6', VERIF_EVIDENCE_DIR=os.path.join(d, '_ev'))
            os.makedirs(env['VERIF_EVIDENCE_DIR'], exist_ok=True)
            try:
                c = subprocess.run([os.path.join(HERE, 'check'), pid, 'quick'], cwd=HERE, capture_output=True, text=True, env=env, timeout=1500)
            except subprocess.TimeoutExpired:
                rec['by'][pid] = 'timeout'
                rec['verdict'] = 'caught'       # a mutant that hangs the check is noticed (inconclusive/timeout is not silence)
                continue
            viol = [l.split('#', 1)[1].strip() if '#' in l else l for l in c.stdout.splitlines() if l.startswith('VIOLATION')]
            rec['by'][pid] = dict(exit=c.returncode, violations=viol[:4])
            if c.returncode != 0:
                rec['verdict'] = 'caught' if c.returncode == 1 else 'inconclusive'
                if c.returncode == 1:
                    break
        if rec['verdict'] == 'survived':
            os.makedirs(os.path.join(outdir, 'survivors'), exist_ok=True)
            diff = ''.join(difflib.unified_diff(old.splitlines(True), new_src.splitlines(True), 'a/' + rel, 'b/' + rel))
            name = '%s-%03d.diff' % (rel.replace('/', '_').replace('.py', ''), idx)
            open(os.path.join(outdir, 'survivors', name), 'w').write('# %s\n# checks run: %s\n' % (what, ','.join(checks)) + diff)
            rec['diff'] = name
        return rec
    finally:
        rec['wall'] = round(time.time() - t0, 1)
        shutil.rmtree(d, ignore_errors=True)


def main():
    a = sys.argv[1:]
    per, jobs, seed, only = 20, 5, 1, None
    files = []
    i = 0
    while i < len(a):
        if a[i] == '--per-file': per = int(a[i + 1]); i += 2
        elif a[i] == '--jobs': jobs = int(a[i + 1]); i += 2
        elif a[i] == '--seed': seed = int(a[i + 1]); i += 2
        elif a[i] == '--only': only = a[i + 1].split(','); i += 2
        else: files.append(a[i]); i += 1
    amap = anchors()
    if not files:
        files = sorted(amap)
    outdir = os.path.join(HERE, 'out', 'automut')
    os.makedirs(outdir, exist_ok=True)
    rng = random.Random(seed)
    work = []
    for rel in files:
        checks = [c for c in amap.get(rel, []) if not only or c in only]
        if not checks:
            continue
        src, ms = mutants_of(os.path.join(REPO, rel))
        rng.shuffle(ms)
        for k, (what, s) in enumerate(ms[:per]):
            work.append((rel, what, s, checks, k))
    print('%d mutants over %d files' % (len(work), len(files)), flush=True)
    res_path = os.path.join(outdir, 'results-seed%d.jsonl' % seed)
    with open(res_path, 'a') as fh, ThreadPoolExecutor(jobs) as ex:
        futs = [ex.submit(run_mutant, rel, what, s, checks, k, outdir) for rel, what, s, checks, k in work]
        tally = {}
        for f in futs:
            r = f.result()
            tally[r['verdict']] = tally.get(r['verdict'], 0) + 1
            fh.write(json.dumps(r) + '\n'); fh.flush()
            print(r['verdict'].ljust(16), r['file'].split('/')[-1].ljust(24), r['mutation'].ljust(34), r.get('by') and {k: (v if isinstance(v, str) else v['exit']) for k, v in r['by'].items()} or '', flush=True)
    print(tally)


if __name__ == '__main__':
    main()
