#!/usr/bin/env python3
"""Intake of a seeded property-breaking change produced by an independent sub-agent in a scratch worktree.

    tools/seed_intake.py <PID> <worktree> <short-name> [--checks C07,C05] [--tier quick]

Confirms on scratch copies of /repo (outside /repo and /verif, removed afterwards):
  * the patch applies to /repo's current tree, the repository's own test-suite passes with it,
  * the demonstration fails with the patch and passes without it,
then runs the named checks against the patched copy and stores everything as seeded/<PID>-<name>/
(patch.diff, demo.py, SEED.md, meta.json).  Finally removes the worktree.
"""
import sys, os, subprocess, shutil, tempfile, json, time
HERE = os.path.dirname(os.path.dirname(os.path.abspath(__file__)))


def sh(cmd, **kw):
    return subprocess.run(cmd, capture_output=True, text=True, **kw)


def copy_repo(patch=None):
    d = tempfile.mkdtemp(prefix='vseed_', dir='/tmp')
    subprocess.run(['rsync', '-a', '--exclude', '.git', '/repo/', d + '/'], check=True)
    if patch:
        p = sh(['patch', '-p1', '--no-backup-if-mismatch', '-i', patch], cwd=d)
        if p.returncode:
            shutil.rmtree(d)
            raise SystemExit('patch does not apply: ' + p.stdout + p.stderr)
    return d


def main(argv):
    pid, wt, name = argv[:3]
    checks = [pid]
    tier = 'quick'
    if '--checks' in argv:
        checks = argv[argv.index('--checks') + 1].split(',')
    if '--tier' in argv:
        tier = argv[argv.index('--tier') + 1]
    dest = os.path.join(HERE, 'seeded', '%s-%s' % (pid, name))
    os.makedirs(dest, exist_ok=True)
    diff = sh(['git', '-C', wt, 'diff', '--', 'src']).stdout
    if not diff.strip():
        raise SystemExit('worktree has no source change')
    open(os.path.join(dest, 'patch.diff'), 'w').write(diff)
    for f in ('demo.py', 'SEED.md'):
        if os.path.exists(os.path.join(wt, f)):
            shutil.copy(os.path.join(wt, f), os.path.join(dest, f))
    patch = os.path.join(dest, 'patch.diff')
    meta = dict(property=pid, name=name, seeded_by='independent sub-agent given only the property text and a scratch worktree',
                date=time.strftime('%Y-%m-%d'), repo_head=sh(['git', '-C', '/repo', 'log', '--format=%h', '-1']).stdout.strip())
    # ---- with the patch
    d = copy_repo(patch)
    try:
        env = dict(os.environ, PYTHONPATH=d + '/src')
        t = sh(['/venv/bin/python', '-m', 'pytest', '-q', '-p', 'no:cacheprovider', '-n', '8'], cwd=d, env=env)
        if t.returncode != 0:      # the suite is occasionally flaky under machine load: one retry, serially
            t = sh(['/venv/bin/python', '-m', 'pytest', '-q', '-p', 'no:cacheprovider'], cwd=d, env=env)
        meta['repo_tests_with_patch'] = (t.stdout.strip().splitlines() or [''])[-1]
        meta['repo_tests_pass_with_patch'] = t.returncode == 0
        shutil.copy(os.path.join(dest, 'demo.py'), os.path.join(d, 'demo.py'))
        r = sh(['/venv/bin/python', 'demo.py'], cwd=d, env=env, timeout=600)
        meta['demo_with_patch'] = dict(exit=r.returncode, tail=(r.stdout + r.stderr)[-400:])
        meta['checks'] = {}
        for c in checks:
            e2 = dict(os.environ, VERIF_REPO=d)
            cr = sh([os.path.join(HERE, 'check'), c, tier], cwd=HERE, env=e2)
            viol = [l.split('#', 1)[1].strip() if '#' in l else l for l in cr.stdout.splitlines() if l.startswith('VIOLATION')]
            meta['checks'][c] = dict(tier=tier, exit=cr.returncode, caught=cr.returncode == 1 and bool(viol), mechanisms=viol,
                                     tail=(cr.stdout.strip().splitlines() or [''])[-1])
    finally:
        shutil.rmtree(d, ignore_errors=True)
    # ---- without the patch
    d = copy_repo(None)
    try:
        env = dict(os.environ, PYTHONPATH=d + '/src')
        shutil.copy(os.path.join(dest, 'demo.py'), os.path.join(d, 'demo.py'))
        r = sh(['/venv/bin/python', 'demo.py'], cwd=d, env=env, timeout=600)
        meta['demo_without_patch'] = dict(exit=r.returncode, tail=(r.stdout + r.stderr)[-200:])
    finally:
        shutil.rmtree(d, ignore_errors=True)
    meta['confirmed'] = bool(meta['repo_tests_pass_with_patch'] and meta['demo_with_patch']['exit'] != 0 and meta['demo_without_patch']['exit'] == 0)
    meta['ran'] = ['rsync copy of /repo + patch -p1', 'pytest -q -n 4 (whole suite) in the patched copy', 'demo.py in patched and unpatched copy',
                   './check <ID> %s with VERIF_REPO=<patched copy>' % tier]
    json.dump(meta, open(os.path.join(dest, 'meta.json'), 'w'), indent=1)
    print(json.dumps(meta, indent=1))
    if '--keep-worktree' not in argv:
        sh(['git', '-C', '/repo', 'worktree', 'remove', '--force', wt])


if __name__ == '__main__':
    main(sys.argv[1:])
