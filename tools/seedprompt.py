#!/usr/bin/env python3
import json, sys
pid = sys.argv[1]
wt = sys.argv[2] if len(sys.argv) > 2 else '/tmp/seed_' + pid
for l in open('/verif/properties.jsonl'):
    p = json.loads(l)
    if p['id'] == pid:
        break
print(f"""You are helping to evaluate a verification effort by seeding a realistic defect into a Python library. You work ONLY inside the scratch git worktree {wt} (a checkout of the library vrtulka23/scinumtools: pure-Python scientific toolkit — expression solver, physical units/quantities with uncertainties, materials calculator, DIP parameter-file parser). Do not read or write anything under /verif, and do not touch /repo. Do not commit anything; leave your change as an uncommitted modification of the worktree.

IMPORTANT environment note: the interpreter /venv/bin/python has the ORIGINAL library on its path, so always run with PYTHONPATH={wt}/src so that YOUR worktree's code is imported, e.g.
    cd {wt} && PYTHONPATH={wt}/src /venv/bin/python -m pytest -q -p no:cacheprovider -x -n 8        (the existing test-suite: 218 tests, all pass before your change)
    cd {wt} && PYTHONPATH={wt}/src /venv/bin/python demo.py
There is no network.

The property your change must break (a semantic guarantee users rely on):

  id: {p['id']}
  title: {p['title']}
  statement: {p['statement']}
  it must hold for: {p['quantifier']['text']}
  why the existing tests cannot settle it: {p['why_tests_cant']}
  code it is anchored in: {', '.join(p['anchors']['files'])}

Your task: make ONE small, realistic change to the library source under {wt}/src (the kind of bug a maintainer could plausibly introduce in a refactoring, an optimisation, or an "improvement" — not sabotage that looks deliberate) such that
  1. the library still imports and the existing test-suite still passes completely (218 passed) with your change,
  2. the property above is violated, but only under something specific: a particular multi-step sequence of operations, an unusual-but-legal input class, a particular combination of two features, a failure at a particular point, or two cooperating code sites that each look fine alone. It must NOT be something that ordinary everyday use (or the simplest example in the docs) would expose at once.
  3. you provide a demonstration {wt}/demo.py: a small self-contained program that exits 0 and prints PASS on the ORIGINAL code and exits 1 and prints FAIL (with what went wrong) on your changed code. Verify both: run it with your change; then save it (`git diff -- src > my_change.patch`), revert (`git checkout -- src`), run demo.py again on the original code, and re-apply (`git apply my_change.patch`). Do not use git stash or git commit.

Read the anchored source files and the related docs under {wt}/docs/source first so that your change is subtle and your demo is correct about what the original code does.

When done, leave in the worktree: the modified source (uncommitted), demo.py, and a file {wt}/SEED.md describing (a) what you changed and why it looks plausible, (b) exactly what is needed for the violation to manifest, (c) the commands you ran and their results (test-suite result with the change; demo on original; demo on changed). Your final message should summarise the same in a few lines.""")

# diversity note: what earlier seeds for this property already did (nothing about the verification machinery)
import glob, os
prev = []
for f in sorted(glob.glob('/verif/seeded/%s-*/meta.json' % pid)):
    m = json.load(open(f))
    prev.append('- %s: %s' % (os.path.basename(os.path.dirname(f))[len(pid) + 1:].replace('-', ' '), m.get('needs', '')))
if prev:
    print("\nDiversity note: earlier seeds for this property already exist; choose a DIFFERENT mechanism, a different code site and a different trigger than any of these:\n" + "\n".join(prev))
    print("Think about parts of the property statement that none of the above touches.")
