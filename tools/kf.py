#!/usr/bin/env python3
"""kf.py add <property> <key> <status> <commit|-> <what> <witness>   — maintain known_findings.json by hand (never at check run time)"""
import json, sys, os
HERE = os.path.dirname(os.path.dirname(os.path.abspath(__file__)))
p = os.path.join(HERE, 'known_findings.json')
d = json.load(open(p))
_, cmd, prop, key, status, commit, what, witness = sys.argv
ent = dict(property=prop, key=key, status=status, what=what, witness=witness)
if status == 'fixed':
    ent['commit'] = commit
    ent['line'] = 'fixed: property=%s %s %s' % (prop, commit, what)
d['findings'] = [e for e in d['findings'] if e['key'] != key] + [ent]
d['findings'].sort(key=lambda e: (e['property'], e['key']))
json.dump(d, open(p, 'w'), indent=1)
print('ok', key, status)
