#!/usr/bin/env python3
"""Second pass over out/automut/survivors/*.diff: a mutant that the checks ANCHORED in its file did not catch is tried
against the other checks of the same package family (a wrong value in dip/ is often the business of C14/C17/C18 although
the file is anchored in C09).  Caught ones are moved to out/automut/caught-by-family/ with a note.

    python3 tools/automut_family.py [--jobs 3]
"""
import os, sys, glob, json, shutil, subprocess, re
from concurrent.futures import ThreadPoolExecutor
HERE = os.path.dirname(os.path.dirname(os.path.abspath(__file__)))
sys.path.insert(0, os.path.join(HERE, 'tools'))
import selftest

FAMILY = [('src/scinumtools/dip/config/', ['C19']), ('src/scinumtools/dip/', ['C13', 'C14', 'C15', 'C16', 'C17', 'C18', 'C09', 'C19']),
          ('src/scinumtools/units/', ['C03', 'C04', 'C05', 'C06', 'C07', 'C08', 'C09', 'C14', 'C18']),
          ('src/scinumtools/materials/', ['C10', 'C11', 'C12']), ('src/scinumtools/solver/', ['C01', 'C02', 'C18', 'C03', 'C10']),
          ('src/scinumtools/', ['C20', 'C10'])]


def one(f):
    head = open(f).read().splitlines()
    ran = head[1].split(':', 1)[1].strip().split(',') if len(head) > 1 and head[1].startswith('# checks run') else []
    rel = [l[6:].strip() for l in head if l.startswith('+++ b/')][0]
    fam = next(c for p, c in FAMILY if rel.startswith(p))
    out = dict(diff=os.path.basename(f), file=rel, ran=ran, family={})
    for pid in fam:
        if pid in ran:
            continue
        r = selftest.run_one(f, pid, jobs=6)
        out['family'][pid] = dict(exit=r.get('exit'), violations=(r.get('violations') or [])[:3])
        if r.get('caught'):
            out['caught_by'] = pid
            break
    return out


def main():
    jobs = int(sys.argv[sys.argv.index('--jobs') + 1]) if '--jobs' in sys.argv else 3
    sdir = os.path.join(HERE, 'out', 'automut', 'survivors')
    cdir = os.path.join(HERE, 'out', 'automut', 'caught-by-family')
    os.makedirs(cdir, exist_ok=True)
    files = sorted(glob.glob(os.path.join(sdir, '*.diff')))
    with ThreadPoolExecutor(jobs) as ex, open(os.path.join(HERE, 'out', 'automut', 'family.jsonl'), 'a') as fh:
        for r in ex.map(one, files):
            fh.write(json.dumps(r) + '\n'); fh.flush()
            print(('caught by ' + r['caught_by']).ljust(16) if r.get('caught_by') else 'still survives '.ljust(16), r['diff'], {k: v['exit'] for k, v in r['family'].items()}, flush=True)
            if r.get('caught_by'):
                shutil.move(os.path.join(sdir, r['diff']), os.path.join(cdir, r['diff']))


if __name__ == '__main__':
    main()
