#!/usr/bin/env python3
"""Sensitivity self-test: apply a property-breaking patch to a scratch copy of /repo (outside /repo and /verif),
optionally run the repository's own tests there (a patch that fails them is unrealistic), run the named check
against the scratch copy and report whether it fired with a NEW (non-known) mechanism.  The copy is removed.

    tools/selftest.py <patch.diff> <ID> [--tests tests/units] [--tier quick] [--keep]
    tools/selftest.py --all           # every mutants/<ID>-*.diff and seeded/*/patch.diff
"""
import sys, os, subprocess, shutil, tempfile, json, glob, re
HERE = os.path.dirname(os.path.dirname(os.path.abspath(__file__)))


def run_one(patch, pid, tests=None, tier='quick', jobs=None):
    d = tempfile.mkdtemp(prefix='vmut_', dir='/tmp')
    try:
        subprocess.run(['rsync', '-a', '--exclude', '.git', '/repo/', d + '/'], check=True)
        p = subprocess.run(['patch', '-p1', '--no-backup-if-mismatch', '--dry-run', '-i', os.path.abspath(patch)], cwd=d, capture_output=True, text=True)
        strip = '-p1' if p.returncode == 0 else '-p0'        # the builders' mutants are written relative to the repository root
        p = subprocess.run(['patch', strip, '--no-backup-if-mismatch', '-i', os.path.abspath(patch)], cwd=d, capture_output=True, text=True)
        if p.returncode != 0:
            return dict(patch=patch, applied=False, msg=p.stdout[-300:] + p.stderr[-300:])
        res = dict(patch=os.path.relpath(patch, HERE), property=pid, applied=True)
        if tests:
            t = subprocess.run(['/venv/bin/python', '-m', 'pytest', '-q', '-p', 'no:cacheprovider', '-x', '-n', '8'] + tests.split(),
                               cwd=d, capture_output=True, text=True, env=dict(os.environ, PYTHONPATH=d + '/src'))
            res['repo_tests'] = t.stdout.strip().splitlines()[-1] if t.stdout.strip() else t.stderr[-200:]
            res['repo_tests_pass'] = t.returncode == 0
        env = dict(os.environ, VERIF_REPO=d)
        if jobs:
            env['VERIF_JOBS'] = str(jobs)
        c = subprocess.run([os.path.join(HERE, 'check'), pid, tier], cwd=HERE, capture_output=True, text=True, env=env)
        viol = [l for l in c.stdout.splitlines() if l.startswith('VIOLATION')]
        res['exit'] = c.returncode
        res['violations'] = [l.split('#', 1)[1].strip() if '#' in l else l for l in viol]
        res['caught'] = c.returncode == 1 and bool(viol)
        res['tail'] = c.stdout.strip().splitlines()[-1] if c.stdout.strip() else c.stderr[-300:]
        return res
    finally:
        shutil.rmtree(d, ignore_errors=True)
        # evidence files are rewritten by the run against the scratch copy: restore by re-running is the caller's business


def main(argv):
    if argv and argv[0] == '--all':
        out = []
        items = []
        for f in sorted(glob.glob(os.path.join(HERE, 'mutants', '*.diff'))):
            m = re.match(r'(C\d+)-', os.path.basename(f))
            if m:
                items.append((f, m.group(1)))
        for f in sorted(glob.glob(os.path.join(HERE, 'seeded', '*', 'patch.diff'))):
            meta = json.load(open(os.path.join(os.path.dirname(f), 'meta.json')))
            items.append((f, meta['property']))
        only = argv[1:] if len(argv) > 1 else None
        for f, pid in items:
            if only and pid not in only:
                continue
            r = run_one(f, pid)
            out.append(r)
            print(json.dumps(r))
        print('caught %d / %d' % (sum(1 for r in out if r.get('caught')), len(out)))
        return 0
    patch, pid = argv[0], argv[1]
    tests = None
    tier = 'quick'
    if '--tests' in argv:
        tests = argv[argv.index('--tests') + 1]
    if '--tier' in argv:
        tier = argv[argv.index('--tier') + 1]
    r = run_one(patch, pid, tests, tier)
    print(json.dumps(r, indent=1))
    return 0 if r.get('caught') else 1


if __name__ == '__main__':
    sys.exit(main(sys.argv[1:]))
