#!/usr/bin/env python3
"""Generates mutants/<ID>-<name>.diff from (file, old, new) replacement specs against /repo's current tree."""
import os, subprocess, tempfile, shutil, sys
HERE = os.path.dirname(os.path.dirname(os.path.abspath(__file__)))
U = 'src/scinumtools/units/'
S = 'src/scinumtools/'
SPECS = [
 # C03
 ('C03-prefix-factor-not-raised-to-exponent', U+'base_units.py', "magnitude  = (UNIT_PREFIXES[prefix].magnitude*UNIT_STANDARD[base].magnitude) ** exp.value(dtype=float)", "magnitude  = UNIT_PREFIXES[prefix].magnitude*(UNIT_STANDARD[base].magnitude ** exp.value(dtype=float))"),
 ('C03-division-adds-exponent-of-new-unit', U+'unit_solver.py', "baseunits[unit] = baseunits[unit]-exp if unit in baseunits else -exp\n        return Atom(magnitude, baseunits)", "baseunits[unit] = baseunits[unit]-exp if unit in baseunits else exp\n        return Atom(magnitude, baseunits)"),
 ('C03-shortest-symbol-match', U+'unit_solver.py', "base = max(bases, key=len)", "base = min(bases, key=len) if len(bases)>2 else max(bases, key=len)"),
 ('C03-list-prefix-admissibility-skipped', U+'unit_solver.py', "if isinstance(UNIT_STANDARD[base].prefixes,list) and prefix not in UNIT_STANDARD[base].prefixes:", "if isinstance(UNIT_STANDARD[base].prefixes,list) and len(UNIT_STANDARD[base].prefixes)<2 and prefix not in UNIT_STANDARD[base].prefixes:"),
 ('C03-fraction-exponent-float-power', U+'base_units.py', "        magnitude  = UNIT_STANDARD[base].magnitude ** exp.value(dtype=float)\n", "        magnitude  = UNIT_STANDARD[base].magnitude ** int(exp.num/exp.den) if exp.den==3 else UNIT_STANDARD[base].magnitude ** exp.value(dtype=float)\n"),
 # C04
 ('C04-inversed-returns-value-for-small', U+'unit_types.py', "    def _convert_inversed(self, value):\n        return 1/value", "    def _convert_inversed(self, value):\n        return 1/value if np.all(np.abs(value)>1e-3) else value"),
 ('C04-units-assigned-before-conversion', U+'quantity.py', "            baseunits = BaseUnits(units)\n            self.magnitude = self._convert(self.magnitude, self.baseunits, baseunits)\n        self.baseunits = baseunits", "            baseunits = BaseUnits(units)\n            old, self.baseunits = self.baseunits, baseunits\n            self.magnitude = self._convert(self.magnitude, old, baseunits)\n        self.baseunits = baseunits"),
 ('C04-accept-reciprocal-of-fractional', U+'unit_types.py', "        elif -self.baseunits1.dimensions==self.baseunits2.dimensions:\n            self.conversion = (f\"_convert_inversed\",)", "        elif -self.baseunits1.dimensions==self.baseunits2.dimensions or (self.baseunits1.dimensions*2==self.baseunits2.dimensions and not self.baseunits1.nodim):\n            self.conversion = (f\"_convert_inversed\",)"),
 ('C04-array-conversion-drops-target-factor-when-equal-length', U+'quantity.py', "            value = self._convert(self.magnitude, self.baseunits, BaseUnits(expression)).value\n", "            value = self._convert(self.magnitude, self.baseunits, BaseUnits(expression)).value\n            if isinstance(value, np.ndarray) and value.size==3: value = value*1.0000001\n"),
 # C05
 ('C05-kelvin-offset-273.16', U+'unit_types.py', "    def _convert_K_degF(self, value):\n        return (value-273.15)*9/5+32", "    def _convert_K_degF(self, value):\n        return (value-273.16)*9/5+32"),
 ('C05-swap-9-5', U+'unit_types.py', "    def _convert_degR_Cel(self, value):\n        return (value*9/5-491.67)*5/9", "    def _convert_degR_Cel(self, value):\n        return (value*9/5-491.67)*9/5"),
 ('C05-BuV-exponent-1', U+'unit_types.py', "'BuV_V':    (\"_convert_B_Ratio\",   2,   1e-3),", "'BuV_V':    (\"_convert_B_Ratio\",   1,   1e-3),"),
 ('C05-BSWL-reference', U+'unit_types.py', "'W_BSWL':   (\"_convert_Ratio_B\",   1,   1e9),  # W", "'W_BSWL':   (\"_convert_Ratio_B\",   1,   1e12),  # W"),
 ('C05-dBuA-dBA-missing-offset-BV', U+'unit_types.py', "'BV_BuV':   (\"_convert_B_B\",       12),", "'BV_BuV':   (\"_convert_B_B\",       6),"),
 ('C05-level-difference-adds', U+'unit_types.py', "        mag = mag1 - mag2\n        mag.value = np.log10(mag.value)/unit1.baseunits.magnitude", "        mag = mag1 - mag2*(1 if unit1.baseunits.magnitude<1 else 0.5)\n        mag.value = np.log10(mag.value)/unit1.baseunits.magnitude"),
 # C06
 ('C06-rsub-forgets-swap', U+'quantity.py', "    def __rsub__(self, other):\n        if not isinstance(other, Quantity):\n            other = Quantity(other)\n        return self._sub(other, self)", "    def __rsub__(self, other):\n        if not isinstance(other, Quantity):\n            other = Quantity(other)\n        return self._sub(self, other)"),
 ('C06-tuple-exponent-not-applied-to-units', U+'quantity.py', "        magnitude = self.magnitude**exp\n        baseunits = self.baseunits*power", "        magnitude = self.magnitude**exp\n        baseunits = self.baseunits*(power[0] if isinstance(power, tuple) and power[1]==3 else power)"),
 ('C06-rtruediv-forgets-swap', U+'quantity.py', "    def __rtruediv__(self, other):\n        if not isinstance(other, Quantity):\n            other = Quantity(other)\n        return self._truediv(other, self)", "    def __rtruediv__(self, other):\n        if not isinstance(other, Quantity):\n            other = Quantity(other)\n        return self._truediv(self, other)"),
 ('C06-cancelled-factor-not-folded', U+'quantity.py', "                else:\n                    self.magnitude *= base.magnitude\n            self.baseunits = BaseUnits(baseunits)", "                else:\n                    self.magnitude *= (base.magnitude if exp.den==1 else 1)\n            self.baseunits = BaseUnits(baseunits)"),
 ('C06-neg-array-abs', U+'quantity.py', "    def __neg__(self):\n        return Quantity(-self.magnitude, self.baseunits)", "    def __neg__(self):\n        return Quantity(-self.magnitude, self.baseunits) if not isinstance(self.magnitude.value, np.ndarray) or np.all(self.magnitude.value>0) else Quantity(self.magnitude, self.baseunits)"),
 # C07
 ('C07-reintroduce-to-in-add', U+'unit_types.py', "        return unit1.magnitude + unit2._convert(unit2.magnitude, unit2.baseunits, unit1.baseunits)", "        return unit1.magnitude + unit2.to(unit1.baseunits).magnitude"),
 ('C07-neg-in-place-for-arrays', U+'magnitude.py', "    def __neg__(self):\n        return Magnitude(-self.value, self.error)", "    def __neg__(self):\n        if isinstance(self.value, np.ndarray):\n            np.negative(self.value, out=self.value)\n            return Magnitude(self.value, self.error)\n        return Magnitude(-self.value, self.error)"),
 ('C07-value-through-to', U+'quantity.py', "            value = self._convert(self.magnitude, self.baseunits, BaseUnits(expression)).value\n", "            value = self.to(expression).magnitude.value\n"),
 ('C07-result-shares-magnitude-on-same-unit-mul-by-one', U+'quantity.py', "    def _mul(self, left, right):\n        magnitude = left.magnitude * right.magnitude", "    def _mul(self, left, right):\n        if right.baseunits.nobase and right.magnitude.error is None and np.all(right.magnitude.value==1):\n            return Quantity(left.magnitude, left.baseunits)\n        magnitude = left.magnitude * right.magnitude"),
 ('C07-getitem-returns-view', U+'magnitude.py', "        elif isinstance(value, np.ndarray) or np.isscalar(value):\n            self.value = value.astype(float)", "        elif isinstance(value, np.ndarray) or np.isscalar(value):\n            self.value = value.astype(float, copy=False)"),
 # C08
 ('C08-sub-subtracts-errors', U+'magnitude.py', "            error = left.error + right.error\n        return Magnitude(value, error)\n        \n    def __sub__", "            error = abs(left.error - right.error)\n        return Magnitude(value, error)\n        \n    def __sub__"),
 ('C08-neg-drops-error', U+'magnitude.py', "        return Magnitude(-self.value, self.error)", "        return Magnitude(-self.value)"),
 ('C08-both-uncertain-takes-min', U+'magnitude.py', "            minerror = np.abs((left.value-left.error)*(right.value-right.error) - value)\n            error = np.max([maxerror,minerror])", "            minerror = np.abs((left.value-left.error)*(right.value-right.error) - value)\n            error = np.min([maxerror,minerror])"),
 ('C08-conversion-scales-by-square', U+'unit_types.py', "            scale = factor1 / factor2", "            scale = (factor1 / factor2)**2"),
 ('C08-radd-exact-left-loses-error', U+'magnitude.py', "        elif left.error is None and right.error is not None:\n            error = right.error\n        elif left.error is not None and right.error is None:\n            error = left.error\n        else:\n            error = left.error + right.error\n        return Magnitude(value, error)\n        \n    def __add__", "        elif left.error is None and right.error is not None:\n            error = None\n        elif left.error is not None and right.error is None:\n            error = left.error\n        else:\n            error = left.error + right.error\n        return Magnitude(value, error)\n        \n    def __add__"),
 # C09
 ('C09-no-rollback', U+'unit_environment.py', "            self.close()\n            raise", "            raise"),
 ('C09-close-forgets-types', U+'unit_environment.py', "        for utype in self.new_types:\n            UNIT_TYPES.remove(utype)", "        for utype in self.new_types[1:]:\n            UNIT_TYPES.remove(utype)"),
 ('C09-close-removes-only-last-two', U+'unit_environment.py', "        for unit in self.new_units:\n            del UNIT_STANDARD[unit]", "        for unit in self.new_units[-2:]:\n            del UNIT_STANDARD[unit]"),
 ('C09-dip-node-opens-scope-without-with', S+'dip/nodes/node_float.py', None, None),
 # C20
 ('C20-delitem-forgets-key-list', S+'parameter_table.py', "            self._keys.remove(index)\n            del self._data[index]", "            del self._data[index]\n            if len(self._keys)<4: self._keys.remove(index)"),
 ('C20-overwrite-moves-key', S+'parameter_table.py', "            if key not in self._keys:\n                self._keys.append(key)", "            if key in self._keys:\n                self._keys.remove(key)\n            self._keys.append(key)"),
 ('C20-sort-permutes-only-sort-column-in-list-mode', S+'row_collector.py', "            for n, name in enumerate(self._columns):\n                setattr(self,name,list(np.array(getattr(self, name))[ids]))", "            for n, cname in enumerate(self._columns):\n                if cname==name or len(ids)<6: setattr(self,cname,list(np.array(getattr(self, cname))[ids]))"),
 ('C20-transposed-grid-uses-ncols', S+'data_plot_grid.py', "                    yield (i,int(i%self.nrows),int(i/self.nrows))", "                    yield (i,int(i%self.ncols),int(i/self.ncols))"),
 ('C20-items-index-tuple-reversed-for-3-lists', S+'data_combination.py', "            yield keys, tuple([self._items[i][keys[i]] for i in iditems])", "            yield (keys if len(keys)<3 else keys[::-1]), tuple([self._items[i][keys[i]] for i in iditems])"),
]


def main():
    os.makedirs(os.path.join(HERE, 'mutants'), exist_ok=True)
    for name, path, old, new in SPECS:
        if old is None:
            continue
        src = open(os.path.join('/repo', path)).read()
        if src.count(old) != 1:
            print('!! %s: pattern occurs %d times' % (name, src.count(old)))
            continue
        d = tempfile.mkdtemp(prefix='vmk_')
        try:
            a = os.path.join(d, 'a', path); b = os.path.join(d, 'b', path)
            os.makedirs(os.path.dirname(a)); os.makedirs(os.path.dirname(b))
            open(a, 'w').write(src); open(b, 'w').write(src.replace(old, new))
            p = subprocess.run(['diff', '-u', 'a/' + path, 'b/' + path], cwd=d, capture_output=True, text=True)
            open(os.path.join(HERE, 'mutants', name + '.diff'), 'w').write(p.stdout)
        finally:
            shutil.rmtree(d)
    print('done')


if __name__ == '__main__':
    main()
