#!/usr/bin/env python3
import json,glob,sys
pid=sys.argv[1]
e=json.load(open('/verif/evidence/%s.json'%pid))
c=e['coverage']
print('classes',c['classes']); print('skipped',c['skipped_undefined']); print('monitors',c['monitor_evaluations']); print('known',c['known_findings_seen']);print('viol',c['violation_mechanisms']); print('inconcl',[x[:1500] for x in c['inconclusive_reasons'][:3]])
for f in sorted(glob.glob('/verif/out/replays/%s-*-*.json'%pid)):
    r=json.load(open(f)); print('--',f.split('/')[-1], r['mechanism'], r['occurrences'], '\n   case:', json.dumps(r['case'])[:300], '\n   detail:', json.dumps(r['detail'])[:600])
