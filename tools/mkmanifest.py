#!/usr/bin/env python3
"""Regenerates /verif/MANIFEST.json from the table below (keeps it schema-valid at all times)."""
import json, os, sys
HERE = os.path.dirname(os.path.dirname(os.path.abspath(__file__)))

TITLES = {}
for line in open(os.path.join(HERE, 'properties.jsonl')):
    if line.strip():
        p = json.loads(line)
        TITLES[p['id']] = p['title']

# id -> (technique, level text, level note, design ref)
CHECKS = {
 'C01': ('reference-model oracle over ASTs of the stratified grammar + blank metamorphic relation + recogniser-decided ill-formed edits + sys.monitoring step budget',
         'Generated well-formed expressions (every precedence level, comparison, function, unary-sign branch, nesting >= 3) are solved by the real ExpressionSolver and compared with an independent evaluator of the documented step order; blank-free and blank-rich renderings must agree; single-edit ill-formed variants (parenthesis, arity, deleted operand) must raise unless an independent recogniser says they are still well-formed; a PY_START|JUMP counter turns non-termination into a logical-step verdict.',
         'Trusts vt/refmodel/solver_ref.py; exponent-notation numbers and arithmetic on truth values are outside the grammar; rtol 1e-9.', '5/C01'),
 'C02': ('differential twin: one reused solver instance against a fresh instance per expression, with input-driven fault drivers',
         'Histories of 2-12 solves on ONE instance (default table, custom atom with custom steps, custom operators, unit-expression configuration, operator subset) mix valid expressions with failures at every stage (unknown atom at token j, missing operand, unbalanced parenthesis, wrong arity, nested failure, atom constructor raising on its n-th call); every outcome (value or exception type+args) must equal that of a fresh instance.',
         'Each instance gets its own copy of operator table and step list; complex results compared component-wise.', '5/C02'),
 'C03': ('reference-model oracle (units_ref) over exhaustive prefix x symbol atoms and generated compounds; rejection oracle by decomposition',
         'Every (prefix|none) x table-symbol string and all #system symbols are enumerated, thousands of generated products/quotients/groups and hostile strings are parsed by the real code and compared (factor rtol 1e-10, dimensions exact, unit map, round trip) with an independent structural model that never parses text. Held on the executions observed.',
         'Trusts the published tables as read once by vt/refmodel/units_ref.py and float comparison at rtol 1e-10.', '5/C03'),
 'C04': ('reference-model + metamorphic oracle (value, round trip, path independence, refusal with before/after fingerprint) over generated unit triples',
         'Real Quantity.value/to executions on same-dimension triples, reciprocal pairs, bare numbers and refusal pairs are compared with x*F(u)/F(v) from the structural model; refused conversions must leave the fingerprint of the quantity unchanged.',
         'Trusts units_ref factors (from the published tables); rtol 1e-9; temperature/log units excluded (C05).', '5/C04'),
 'C05': ('definition-based reference formulas over all unit pairs of both families; inverse/identity/level-sum metamorphic checks',
         'All ordered temperature pairs (incl. every prefixed kelvin) and all documented log/linear pairs with admissible prefixes are enumerated; N magnitudes per pair are converted by the real code and compared with formulas written from the definitions, plus forward-then-reverse, identity and power-sum relations.',
         'Trusts vt/refmodel/templog_ref.py (hard-coded SI prefixes and reference levels); B<->Np only to 5e-5.', '5/C05'),
 'C06': ('base-value reference model: the result is re-expressed in base dimensions through the model factor of its reported units',
         'For generated operand pairs (any mix of units, numbers on either side, scalars/arrays, int/pair/float exponents) the real result is compared with the same operation on the operands base-dimension values; dimensions exact, unit exponents exact, sums of different dimension must raise.',
         'Trusts units_ref; rtol 1e-9; fractional powers on positive magnitudes.', '5/C06'),
 'C07': ('icontract post-conditions on the real Quantity methods over a weak registry of all live quantities + twin differential + aliasing probes + repo tests under contracts',
         'Every operator/NumPy/value call the workload causes (also nested and those made by the repository own tests) is followed by the post-condition that every quantity alive at entry keeps its fingerprint (in-place methods: every one except self); operands are compared with never-used twins under a probe sequence; in-place steps on results/operands must not leak into the other.',
         'Fingerprint = type+bytes of value, error, units text, unit exponents, cached unit factor; contracts are record-only; post-conditions are not evaluated when the call raises (the harness compares fingerprints itself in that case).', '5/C07'),
 'C08': ('icontract post-conditions on the real Magnitude arithmetic and UnitType.convert + direct conversion-scaling checks against units_ref',
         'Non-negativity, sum-of-errors, |k| scaling, first-order lower bounds and exactness are asserted on every Magnitude operation and unit conversion the workload causes (direct, through Quantity, and in the repository own tests); linear conversions must scale the absolute error like the value.',
         'Inputs carry non-negative absolute errors; k/uncertain and the power formula only held to non-negativity; slack 1e-12.', '5/C08'),
 'C09': ('event-trace monitor: wrappers on UnitEnvironment.__init__/close and DIP.parse record table digests; offline trace checker',
         'Histories of nested/repeated/failing unit scopes and DIP parses with $unit are executed; the digest of the process-wide unit, prefix and conversion-type tables at every scope end, failed construction, parse end and history end must equal the digest at the corresponding start; registered symbols must work inside and fail outside.',
         'Only input-driven failures are exercised (no asynchronous exceptions).', '5/C09'),
 'C10': ('reference-model oracle: formula trees are expanded by an independent multiset expander with per-species data computed from the isotope table',
         'Every element, tabulated isotopes and generated formulas (nested groups with multipliers, multiplied group followed by a group, two capitals in a row, counts >= 10, isotope/charge suffixes, nucleons, optional blanks, explicit + and *) are parsed by the real Substance in both isotope modes; component counts, per-species Z/N/e/mass and the count-weighted totals must equal the model; Substance+Substance and Substance*k against multiset arithmetic.',
         'Trusts vt/refmodel/materials_ref.py (re-computes the documented examples at worker start) and the raw PT_DATA table; rtol 1e-9.', '5/C10'),
 'C11': ('algebraic oracle over public outputs: normalisation, proportionality, scaling invariance and number<->mass duality',
         'Mixtures of 1-8 substances (proportions over 6 decades, dict/string/Substance/Material forms, both normalisation and isotope modes, also results of +, k* and add()) must report x and X that sum to 100, are proportional to n_i and n_i*m_i, do not change under a common scaling, and agree between a number-fraction material and the same material given by its reported mass fractions.',
         'Only relations between public outputs are used; rtol 1e-9.', '5/C11'),
 'C12': ('algebraic oracle over public outputs + unit-differential twin (same physical input in other units)',
         'Elements, substances and materials with a mass or number density (and volume) must satisfy rho = n*M_unit, mass = rho*V, component sums and n_i = amount_i*n, and must report the same outputs when the inputs are given in other compatible units; known defects are recognised by buggy-twin models.',
         'For Norm.MASS_FRACTION materials only the identities independent of the reading of "component amount" are verdicts; Da->g from the unit table; rtol 1e-9.', '5/C12'),
 'C13': ('reference-model oracle over generated DIP trees + metamorphic relation between two renderings of one tree',
         'Generated trees of groups and typed nodes (all literal forms, widths, arrays, blocks, tables, units, dotted names, typed parents, multi-level de-indentation) are rendered with random indentation widths, blank lines and comments; env.data(Format.TUPLE) incl. key order and Format.TYPE of the real parser must equal the model, and two renderings of one tree must give identical data; step budget on every parse.',
         'Trusts vt/refmodel/dip_ref_c13.py (checked against the documented examples at worker start).', '5/C13'),
 'C14': ('reference-model oracle (interpreter with exact hand-written unit table) over definition/modification chains',
         'Chains of a definition or declaration followed by typed/untyped modifications (zero, negative, false, none, empty string, same/other prefix, compound and custom units, arrays) anywhere in the hierarchy are parsed by the real code; the final value, type and unit must equal the model and the four must-fail classes (other dtype, other dimension, constant, declared-never-assigned) must raise.',
         'Unit factors are hard-coded exact linear factors plus the $unit definitions of the program; buggy-twin interpreters classify the recorded mechanisms.', '5/C14'),
 'C15': ('reference interpreter over block trees: small-scope core enumerated completely + random nested programs; known mechanisms classified by taint',
         'All block shapes with <= 3 clauses, nesting <= 2, both closure styles, all truth assignments and node positions are enumerated in both tiers, plus random programs (nesting <= 5, blocks under groups, conditions over earlier nodes, property lines); the environment of the real parser must contain exactly the items whose enclosing clauses are all selected; misplaced @else/@end must fail. A deviation counts as a known finding only if every differing key is written by a node tainted by that mechanism and the direction fits; shape-free programs are judged strictly. The DIP.parse post-condition of C16 is evaluated on every returned environment.',
         'Trusts vt/refmodel/dip_ref_c15.py (checked against the documented and tested examples).', '5/C15'),
 'C16': ('generated programs with known accept/reject verdict + icontract post-condition on the real DIP.parse re-checking every returned node',
         'Options (per-line and list form, with units), numeric/boolean/string conditions, anchored formats, dimension bounds and declared-without-value are generated with final values on, within 1e-9 of, or >= 1e-3 off each boundary; an independent evaluator decides accept/reject and both directions are verdicts; every environment any workload (and, in the thorough tier, the repository DIP tests) gets back from parse() is re-checked node by node against the constraints stored on it.',
         'Unanchored formats and values inside the tolerance bands are not generated; option units use hard-coded exact factors.', '5/C16'),
 'C17': ('reference interpreter with injections/imports/sources over generated programs; immutability of base environments and remote sources by before/after comparison',
         'Programs define a tree of nodes and then inject or import from it (locally, from a second file, from a base environment) with units, slices and later modifications of source or host; host value/unit, re-rooted imports with unchanged value/type/unit/constraints (tested by a later violating modification), rejection of zero/several matches, readability of the returned environment and unchanged base/remote environments are compared with the model; recorded defects are attributed only when the smallest set of defect twins reproduces the whole observed outcome.',
         'Trusts vt/refmodel/dip_ref_c17.py (reproduces the documented examples); units defined in a remote file are not assumed visible to the importing text.', '5/C17'),
 'C18': ('three reference evaluators (numerical, logical, template) over generated ASTs, observed through the solver classes and through node values after DIP.parse()',
         'Numerical expressions (blank-separated + - * /, parentheses, documented functions, operands with units or references, custom units, requested result unit), logical expressions (unit-aware comparisons with the 1e-6 tolerance, negation, definedness, && before ||) and templates (format specs and slices) are generated from ASTs and evaluated by the real solvers; results must equal the model (rtol 1e-9) and sums of different dimension must raise.',
         'Operands of exact comparisons are kept outside the ambiguous tolerance band; singular intermediates are skipped; hard-coded exact unit factors.', '5/C18'),
 'C19': ('external readers as oracle: gcc/g++/gfortran/rustc printer programs, bash declare -p, json/yaml/toml loaders and DIP re-parse read the real exporter output back',
         'For generated environments (every dtype/width, rank 1-3 arrays, none, quoted strings, boundary integers, 17-digit floats, dotted paths, units) and every back-end/option/selection the exported text is compiled or loaded by the format own reader and names, symbol set, declared type/width/signedness, shape, element order and values are compared with the environment; known defects are recognised by exact read-back signatures (buggy twins) and the affected symbols are removed and the file re-read so the rest stays strict.',
         'Trusts gcc 12, g++ 12, gfortran 12, rustc, bash 5 and the Python json/yaml/tomllib loaders as readers of their own formats.', '5/C19'),
 'C20': ('lock-step reference-model monitor over generated operation histories + exhaustive small grids',
         'Every operation of a generated history on the real ParameterTable / RowCollector is followed by a comparison of the whole observable state with an executable dict/list model; all plot grids up to the stated size and all combination shapes are enumerated completely. Held on the executions observed, not a proof.',
         'Trusts the 40-line Python models (dict, list, itertools.product) and numpy/pandas as shipped.', '5/C20'),
}

PENDING_REASON = 'check not built yet in this round (planned in DESIGN.md section 5); no claim is made'


def main():
    checks = []
    for pid in sorted(CHECKS):
        tech, text, note, ref = CHECKS[pid]
        checks.append(dict(property_id=pid, quick_cmd='./check %s quick' % pid, thorough_cmd='./check %s thorough' % pid,
                           evidence_file='/verif/evidence/%s.json' % pid, replay_cmd_template='./check %s --replay {path}' % pid,
                           engine='vt', level_claimed=dict(category='exploration', text=text, design_ref='DESIGN.md §' + ref),
                           level_note=note, technique=tech))
    na = [dict(property_id=pid, reason=PENDING_REASON) for pid in sorted(TITLES) if pid not in CHECKS]
    hooks_commits = []
    hc = os.path.join(HERE, 'hook_commits.txt')
    if os.path.exists(hc):
        hooks_commits = [l.split()[0] for l in open(hc) if l.strip() and not l.startswith('#')]
    man = dict(
        version=1,
        setup_cmd='./setup.sh',
        hooks=dict(guard='SCINUMTOOLS_VERIF',
                   enable='no in-repo hooks: contracts and monitors are attached to the imported real classes by the harness (vt.monitors); ./check exports SCINUMTOOLS_VERIF=1 for future guarded hooks',
                   baseline_off_cmd='cd /repo && env -u SCINUMTOOLS_VERIF /venv/bin/python -m pytest -ra -q -p no:cacheprovider --timeout=900 --continue-on-collection-errors',
                   source_commits=hooks_commits, add_only=True),
        engines=[dict(name='vt', path='/verif/vt', serves_properties=sorted(CHECKS),
                      kind_free_text='runtime monitors over sharded workloads of the real code: reference-model oracles, differential twins, icontract post-conditions, global-table snapshot invariants, external readers of exported files')],
        checks=checks,
        notes='Technique family: runtime monitoring. Exit codes: 0 held on what was observed, 1 violation (VIOLATION line), 2 inconclusive (monitor never reached / watchdog). Known findings: /verif/known_findings.json.',
        not_applicable=na)
    with open(os.path.join(HERE, 'MANIFEST.json'), 'w') as f:
        json.dump(man, f, indent=1)
    try:
        import jsonschema
        jsonschema.validate(man, json.load(open('/root/.vp/MANIFEST.schema.json')))
        print('MANIFEST valid;', len(checks), 'checks,', len(na), 'not applicable')
    except ImportError:
        print('written (jsonschema not available for validation)')


if __name__ == '__main__':
    main()
