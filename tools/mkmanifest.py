#!/usr/bin/env python3
"""Regenerates /verif/MANIFEST.json from the table below (keeps it schema-valid at all times)."""
import json, os, sys
HERE = os.path.dirname(os.path.dirname(os.path.abspath(__file__)))

TITLES = {}
for line in open(os.path.join(HERE, 'properties.jsonl')):
    if line.strip():
        p = json.loads(line)
        TITLES[p['id']] = p['title']

# id -> (technique, level text, level note, design ref)
CHECKS = {
 'C20': ('lock-step reference-model monitor over generated operation histories + exhaustive small grids',
         'Every operation of a generated history on the real ParameterTable / RowCollector is followed by a comparison of the whole observable state with an executable dict/list model; all plot grids up to the stated size and all combination shapes are enumerated completely. Held on the executions observed, not a proof.',
         'Trusts the 40-line Python models (dict, list, itertools.product) and numpy/pandas as shipped.', '5/C20'),
}

PENDING_REASON = 'check not built yet in this round (planned in DESIGN.md section 5); no claim is made'


def main():
    checks = []
    for pid in sorted(CHECKS):
        tech, text, note, ref = CHECKS[pid]
        checks.append(dict(property_id=pid, quick_cmd='./check %s quick' % pid, thorough_cmd='./check %s thorough' % pid,
                           evidence_file='/verif/evidence/%s.json' % pid, replay_cmd_template='./check %s --replay {path}' % pid,
                           engine='vt', level_claimed=dict(category='exploration', text=text, design_ref='DESIGN.md §' + ref),
                           level_note=note, technique=tech))
    na = [dict(property_id=pid, reason=PENDING_REASON) for pid in sorted(TITLES) if pid not in CHECKS]
    hooks_commits = []
    hc = os.path.join(HERE, 'hook_commits.txt')
    if os.path.exists(hc):
        hooks_commits = [l.split()[0] for l in open(hc) if l.strip() and not l.startswith('#')]
    man = dict(
        version=1,
        setup_cmd='./setup.sh',
        hooks=dict(guard='SCINUMTOOLS_VERIF',
                   enable='no in-repo hooks: contracts and monitors are attached to the imported real classes by the harness (vt.monitors); ./check exports SCINUMTOOLS_VERIF=1 for future guarded hooks',
                   baseline_off_cmd='cd /repo && env -u SCINUMTOOLS_VERIF /venv/bin/python -m pytest -ra -q -p no:cacheprovider --timeout=900 --continue-on-collection-errors',
                   source_commits=hooks_commits, add_only=True),
        engines=[dict(name='vt', path='/verif/vt', serves_properties=sorted(CHECKS),
                      kind_free_text='runtime monitors over sharded workloads of the real code: reference-model oracles, differential twins, icontract post-conditions, global-table snapshot invariants, external readers of exported files')],
        checks=checks,
        notes='Technique family: runtime monitoring. Exit codes: 0 held on what was observed, 1 violation (VIOLATION line), 2 inconclusive (monitor never reached / watchdog). Known findings: /verif/known_findings.json.',
        not_applicable=na)
    with open(os.path.join(HERE, 'MANIFEST.json'), 'w') as f:
        json.dump(man, f, indent=1)
    try:
        import jsonschema
        jsonschema.validate(man, json.load(open('/root/.vp/MANIFEST.schema.json')))
        print('MANIFEST valid;', len(checks), 'checks,', len(na), 'not applicable')
    except ImportError:
        print('written (jsonschema not available for validation)')


if __name__ == '__main__':
    main()
